package main

// Harness intrinsics: the v* functions declared in every harness package (native bodies read a
// replay table; here they create symbolic inputs and proof obligations).

import (
	"fmt"
	"go/types"

	"golang.org/x/tools/go/ssa"
)

type intrinsicFn func(ex *Exec, fn *ssa.Function, args []Value) Value

var apiFns map[string]intrinsicFn

func init() {
	apiFns = map[string]intrinsicFn{
		"vU8":    func(ex *Exec, fn *ssa.Function, a []Value) Value { return ex.newInput(ex.tagOf(a[0]), 8) },
		"vU16":   func(ex *Exec, fn *ssa.Function, a []Value) Value { return ex.newInput(ex.tagOf(a[0]), 16) },
		"vU32":   func(ex *Exec, fn *ssa.Function, a []Value) Value { return ex.newInput(ex.tagOf(a[0]), 32) },
		"vU64":   func(ex *Exec, fn *ssa.Function, a []Value) Value { return ex.newInput(ex.tagOf(a[0]), 64) },
		"vInt":   func(ex *Exec, fn *ssa.Function, a []Value) Value { return ex.newInput(ex.tagOf(a[0]), 64) },
		"vI64":   func(ex *Exec, fn *ssa.Function, a []Value) Value { return ex.newInput(ex.tagOf(a[0]), 64) },
		"vBool":  func(ex *Exec, fn *ssa.Function, a []Value) Value { return ex.newInput(ex.tagOf(a[0]), 0) },
		"vBytes": apiBytes,
		"vChoose": func(ex *Exec, fn *ssa.Function, a []Value) Value {
			tag := ex.tagOf(a[0])
			n := int(ex.Concretize(a[1].(*Term), "vChoose arity"))
			// a choose is also an input (so that native replay takes the same arm)
			name := ex.inputName(tag)
			k := ex.Choose(n, tag)
			v := ex.tt.Var(name, 64)
			ex.inputs = append(ex.inputs, v)
			ex.addPC(ex.tt.Eq(v, ex.tt.BV(uint64(k), 64)))
			if ex.model != nil {
				m := &Model{vals: make(map[string]uint64, len(ex.model.vals)+1)}
				for kk, vv := range ex.model.vals {
					m.vals[kk] = vv
				}
				m.vals[name] = uint64(k)
				ex.model = m
			}
			return ex.intTerm(k)
		},
		"vAssume": func(ex *Exec, fn *ssa.Function, a []Value) Value {
			ex.assumes++
			ex.assume(a[0].(*Term))
			return nil
		},
		"vAssert": func(ex *Exec, fn *ssa.Function, a []Value) Value {
			ex.assertCheck(ex.runner, ex.harness, ex.tagOf(a[0]), a[1].(*Term))
			return nil
		},
		"vCover": func(ex *Exec, fn *ssa.Function, a []Value) Value {
			ex.coverCheck(ex.harness, ex.tagOf(a[0]), a[1].(*Term))
			return nil
		},
		"vRegion": func(ex *Exec, fn *ssa.Function, a []Value) Value {
			ex.regions = append(ex.regions, regionDecl{slug: ex.runner.propID + "/" + ex.tagOf(a[0]), cond: a[1].(*Term)})
			return nil
		},
		"vIteU8":   apiIte,
		"vIteU64":  apiIte,
		"vIteInt":  apiIte,
		"vIteBool": apiIte,
		"vTier": func(ex *Exec, fn *ssa.Function, a []Value) Value {
			if ex.runner.tier == "thorough" {
				return ex.intTerm(1)
			}
			return ex.intTerm(0)
		},
		"vSymbolic": func(ex *Exec, fn *ssa.Function, a []Value) Value { return ex.tt.True },
		"vMapOrderNondet": func(ex *Exec, fn *ssa.Function, a []Value) Value {
			ex.mapNondet = a[0].(*Term).IsTrue()
			return nil
		},
		"vHashCollisionFree": func(ex *Exec, fn *ssa.Function, a []Value) Value {
			ex.hashInjective = a[0].(*Term).IsTrue()
			return nil
		},
		"vStop": func(ex *Exec, fn *ssa.Function, a []Value) Value { panic(pathEnd{kind: "stop"}) },
		"vNote": func(ex *Exec, fn *ssa.Function, a []Value) Value { ex.noteOnce(ex.tagOf(a[0])); return nil },
		// vIsConcrete(x uint64) reports whether the engine holds x as a constant (natively: true)
		"vLog": func(ex *Exec, fn *ssa.Function, a []Value) Value { return nil },
		// vBytesEq(a,b): non-forking equality of two byte slices
		"vBytesEq": func(ex *Exec, fn *ssa.Function, a []Value) Value {
			x, y := a[0].(*SliceVal), a[1].(*SliceVal)
			return ex.bytesEq(ex.sliceBytesOrNil(x), ex.sliceBytesOrNil(y))
		},
		"vAnd": func(ex *Exec, fn *ssa.Function, a []Value) Value { return ex.tt.BAnd(a[0].(*Term), a[1].(*Term)) },
		"vOr":  func(ex *Exec, fn *ssa.Function, a []Value) Value { return ex.tt.BOr(a[0].(*Term), a[1].(*Term)) },
		"vImplies": func(ex *Exec, fn *ssa.Function, a []Value) Value {
			return ex.tt.Implies(a[0].(*Term), a[1].(*Term))
		},
		"vAllocCheck": func(ex *Exec, fn *ssa.Function, a []Value) Value {
			// vAllocCheck(on bool, slack uint64, lim uint64)
			ex.allocCheckOn = a[0].(*Term).IsTrue()
			ex.allocSlack = a[1].(*Term)
			ex.allocLimit = a[2].(*Term)
			return nil
		},
	}
}

func (ex *Exec) sliceBytesOrNil(s *SliceVal) []*Term {
	if s.arr == nil {
		return nil
	}
	return ex.sliceBytes(s)
}

func (ex *Exec) tagOf(v Value) string {
	s, ok := v.(*StrVal)
	if !ok {
		ex.unsupported("harness tag is not a string")
	}
	str, ok := s.concrete()
	if !ok {
		ex.unsupported("harness tag is not concrete")
	}
	return str
}

// inputName makes tags unique per path in a deterministic way: tag, tag#1, tag#2, ...
func (ex *Exec) inputName(tag string) string {
	n := ex.tagCount[tag]
	ex.tagCount[tag] = n + 1
	if n == 0 {
		return tag
	}
	return fmt.Sprintf("%s#%d", tag, n)
}

func (ex *Exec) newInput(tag string, w uint16) *Term {
	name := ex.inputName(tag)
	v := ex.tt.Var(name, w)
	ex.inputs = append(ex.inputs, v)
	return v
}

func apiBytes(ex *Exec, fn *ssa.Function, a []Value) Value {
	tag := ex.tagOf(a[0])
	n := int(ex.Concretize(a[1].(*Term), "vBytes length"))
	name := ex.inputName(tag)
	bs := make([]*Term, n)
	for i := range bs {
		v := ex.tt.Var(fmt.Sprintf("%s[%d]", name, i), 8)
		ex.inputs = append(ex.inputs, v)
		bs[i] = v
	}
	return ex.mkByteSlice(bs)
}

func apiIte(ex *Exec, fn *ssa.Function, a []Value) Value {
	return ex.tt.Ite(a[0].(*Term), a[1].(*Term), a[2].(*Term))
}

var _ = types.Typ
