package main

import (
	"golang.org/x/tools/go/ssa"
)

func registerAtomicModels() {
	load := func(ex *Exec, fn *ssa.Function, a []Value) Value { return ex.load(a[0].(*PtrVal)) }
	store := func(ex *Exec, fn *ssa.Function, a []Value) Value { ex.store(a[0].(*PtrVal), a[1]); return nil }
	add := func(ex *Exec, fn *ssa.Function, a []Value) Value {
		p := a[0].(*PtrVal)
		n := ex.tt.Add(ex.load(p).(*Term), a[1].(*Term))
		ex.store(p, n)
		return n
	}
	cas := func(ex *Exec, fn *ssa.Function, a []Value) Value {
		p := a[0].(*PtrVal)
		eq := ex.equal(ex.load(p), a[1])
		if ex.Decide(eq) {
			ex.store(p, a[2])
			return ex.tt.True
		}
		return ex.tt.False
	}
	swap := func(ex *Exec, fn *ssa.Function, a []Value) Value {
		p := a[0].(*PtrVal)
		old := ex.load(p)
		ex.store(p, a[1])
		return old
	}
	for _, t := range []string{"Int32", "Int64", "Uint32", "Uint64", "Uintptr", "Pointer"} {
		intrinsics["sync/atomic.Load"+t] = load
		intrinsics["sync/atomic.Store"+t] = store
		intrinsics["sync/atomic.Add"+t] = add
		intrinsics["sync/atomic.CompareAndSwap"+t] = cas
		intrinsics["sync/atomic.Swap"+t] = swap
	}
}
