package main

import (
	"fmt"
	"go/types"

	"golang.org/x/tools/go/ssa"
)

func (ex *Exec) intTerm(n int) *Term { return ex.tt.BV(uint64(int64(n)), 64) }

func (ex *Exec) callBuiltin(b *ssa.Builtin, args []Value, site *ssa.CallCommon) Value {
	tt := ex.tt
	switch b.Name() {
	case "len", "cap", "copy":
	case "append":
		if y, ok := args[1].(*SliceVal); ok && y.symLen != nil {
			s := ex.mat(args[0].(*SliceVal))
			if _, _, scalar := bvInfo(y.arr.et); scalar {
				// append(s, big...): the result is a fresh large buffer
				a := &ArrObj{e: make([]Value, s.len+y.len), et: y.arr.et, id: ex.nextID()}
				for i := 0; i < s.len; i++ {
					a.e[i] = s.arr.e[s.off+i]
				}
				for i := 0; i < y.len; i++ {
					a.e[s.len+i] = y.arr.e[y.off+i]
				}
				nl := tt.Add(ex.intTerm(s.len), y.symLen)
				return &SliceVal{arr: a, off: 0, len: len(a.e), cap: len(a.e), symLen: nl, symCap: nl}
			}
		}
		ex.matArgs(args)
	default:
		ex.matArgs(args)
	}
	switch b.Name() {
	case "len":
		switch x := args[0].(type) {
		case *SliceVal:
			if x.symLen != nil {
				return x.symLen
			}
			return ex.intTerm(x.len)
		case *StrVal:
			return ex.intTerm(len(x.b))
		case *MapVal:
			if x == nil {
				return ex.intTerm(0)
			}
			ex.noteMapAccess(x, false)
			return ex.intTerm(len(x.keys))
		case *ArrObj:
			return ex.intTerm(len(x.e))
		case *PtrVal:
			if x.cell != nil {
				return ex.intTerm(len(x.cell.v.(*ArrObj).e))
			}
			if at, ok := site.Args[0].Type().Underlying().(*types.Pointer); ok {
				return ex.intTerm(int(at.Elem().Underlying().(*types.Array).Len()))
			}
		case *ChanVal:
			if x == nil {
				return ex.intTerm(0)
			}
			return ex.intTerm(len(x.buf))
		}
	case "cap":
		switch x := args[0].(type) {
		case *SliceVal:
			if x.symCap != nil {
				return x.symCap
			}
			if x.lazyCap != nil {
				return x.lazyCap
			}
			if x.symLen != nil {
				args[0] = ex.mat(x)
				return ex.intTerm(args[0].(*SliceVal).cap)
			}
			return ex.intTerm(x.cap)
		case *ArrObj:
			return ex.intTerm(len(x.e))
		case *ChanVal:
			if x == nil {
				return ex.intTerm(0)
			}
			return ex.intTerm(x.cap)
		case *PtrVal:
			if at, ok := site.Args[0].Type().Underlying().(*types.Pointer); ok {
				return ex.intTerm(int(at.Elem().Underlying().(*types.Array).Len()))
			}
		}
	case "append":
		s := args[0].(*SliceVal)
		var add []Value
		switch y := args[1].(type) {
		case *SliceVal:
			for i := 0; i < y.len; i++ {
				add = append(add, y.arr.e[y.off+i])
			}
		case *StrVal:
			for _, t := range y.b {
				add = append(add, t)
			}
		}
		et := site.Args[0].Type().Underlying().(*types.Slice).Elem()
		return ex.appendVals(s, add, et)
	case "copy":
		dst := args[0].(*SliceVal)
		if sv, ok := args[1].(*SliceVal); ok && sv.symLen != nil && dst.symLen != nil {
			args[1] = ex.mat(sv)
		}
		if dst.symLen != nil {
			// n = min(symbolic len(dst), concrete len(src)): split on which one is smaller
			var ls int
			switch src := args[1].(type) {
			case *SliceVal:
				ls = src.len
			case *StrVal:
				ls = len(src.b)
			}
			if ex.Decide(tt.Ule(ex.intTerm(ls), dst.symLen)) {
				if ls > dst.len {
					panic(pathEnd{kind: "bound", msg: "copy into a large symbolic-length buffer beyond its modelled cells"})
				}
				dst = &SliceVal{arr: dst.arr, off: dst.off, len: ls, cap: ls}
			} else {
				dst = ex.mat(dst)
			}
		} else if sv, ok := args[1].(*SliceVal); ok && sv.symLen != nil {
			if ex.Decide(tt.Ule(ex.intTerm(dst.len), sv.symLen)) {
				if dst.len > sv.len {
					panic(pathEnd{kind: "bound", msg: "copy from a large symbolic-length buffer beyond its modelled cells"})
				}
				args[1] = &SliceVal{arr: sv.arr, off: sv.off, len: dst.len, cap: dst.len}
			} else {
				args[1] = ex.mat(sv)
			}
		}
		n := dst.len
		switch src := args[1].(type) {
		case *SliceVal:
			if src.len < n {
				n = src.len
			}
			if n > 0 {
				if dst.arr == src.arr && dst.off > src.off {
					for i := n - 1; i >= 0; i-- {
						dst.arr.e[dst.off+i] = ex.copyVal(src.arr.e[src.off+i])
					}
				} else {
					for i := 0; i < n; i++ {
						dst.arr.e[dst.off+i] = ex.copyVal(src.arr.e[src.off+i])
					}
				}
				ex.noteAccess(nil, dst.arr, -1, true)
				ex.noteAccess(nil, src.arr, -1, false)
			}
		case *StrVal:
			if len(src.b) < n {
				n = len(src.b)
			}
			for i := 0; i < n; i++ {
				dst.arr.e[dst.off+i] = src.b[i]
			}
		}
		return ex.intTerm(n)
	case "delete":
		ex.mapDelete(args[0].(*MapVal), args[1])
		return nil
	case "close":
		ex.chanClose(args[0].(*ChanVal))
		return nil
	case "panic":
		panic(&goPanic{val: args[0], msg: "panic: " + describe(args[0]), stack: ex.stackString()})
	case "recover":
		cf := ex.curFrame()
		if cf != nil && cf.caller != nil && cf.caller.panicking != nil {
			p := cf.caller.panicking
			cf.caller.panicking = nil
			cf.caller.recovered = true
			if p.val == nil {
				return &IfaceVal{}
			}
			if iv, ok := p.val.(*IfaceVal); ok {
				return iv
			}
			return &IfaceVal{t: types.Typ[types.String], v: ex.strConst(p.msg)}
		}
		return &IfaceVal{}
	case "print", "println":
		return nil
	case "min", "max":
		r := args[0]
		_, signed, _ := bvInfo(site.Args[0].Type())
		for _, a := range args[1:] {
			x, y := r.(*Term), a.(*Term)
			var lt *Term
			if signed {
				lt = tt.Slt(y, x)
			} else {
				lt = tt.Ult(y, x)
			}
			if b.Name() == "max" {
				if signed {
					lt = tt.Slt(x, y)
				} else {
					lt = tt.Ult(x, y)
				}
			}
			r = tt.Ite(lt, y, x)
		}
		return r
	case "ssa:wrapnilchk":
		p := args[0].(*PtrVal)
		if p.isNil() {
			ex.goPanicStr("value method called using nil pointer")
		}
		return p
	case "clear":
		switch x := args[0].(type) {
		case *MapVal:
			if x != nil {
				x.keys, x.vals = nil, nil
			}
		case *SliceVal:
			et := site.Args[0].Type().Underlying().(*types.Slice).Elem()
			for i := 0; i < x.len; i++ {
				x.arr.e[x.off+i] = ex.zero(et)
			}
		}
		return nil
	}
	ex.unsupported(fmt.Sprintf("builtin %s on %T", b.Name(), args[0]))
	return nil
}

func (ex *Exec) appendVals(s *SliceVal, add []Value, et types.Type) *SliceVal {
	if len(add) == 0 {
		return s
	}
	need := s.len + len(add)
	if s.lazyCap != nil {
		if ex.Decide(ex.tt.Ule(ex.intTerm(need), s.lazyCap)) {
			if need > s.cap {
				panic(pathEnd{kind: "bound", msg: "append into a buffer of symbolic capacity beyond its modelled cells"})
			}
			for i, v := range add {
				s.arr.e[s.off+s.len+i] = ex.copyVal(v)
			}
			ex.noteAccess(nil, s.arr, -1, true)
			return &SliceVal{arr: s.arr, off: s.off, len: need, cap: s.cap, lazyCap: s.lazyCap}
		}
		s = &SliceVal{arr: s.arr, off: s.off, len: s.len, cap: s.len} // full: reallocate
	}
	if s.arr != nil && need <= s.cap {
		for i, v := range add {
			s.arr.e[s.off+s.len+i] = ex.copyVal(v)
		}
		ex.noteAccess(nil, s.arr, -1, true)
		return &SliceVal{arr: s.arr, off: s.off, len: need, cap: s.cap}
	}
	// grow: Go's growth policy is unspecified; double
	nc := s.cap * 2
	if nc < need {
		nc = need
	}
	if nc < 4 {
		nc = 4
	}
	a := &ArrObj{e: make([]Value, nc), et: et, id: ex.nextID()}
	for i := 0; i < s.len; i++ {
		a.e[i] = s.arr.e[s.off+i]
	}
	for i, v := range add {
		a.e[s.len+i] = ex.copyVal(v)
	}
	var z Value
	scalar := false
	if _, _, ok := bvInfo(et); ok {
		z = ex.zero(et)
		scalar = true
	}
	for i := need; i < nc; i++ {
		if scalar {
			a.e[i] = z
		} else {
			a.e[i] = ex.zero(et)
		}
	}
	return &SliceVal{arr: a, off: 0, len: need, cap: nc}
}
