package main

// Event mode (C08): the engine records, per logical thread, lock operations and accesses to
// objects that existed before the concurrent phase began; the schedule is then a vector of SMT
// timestamps and a data race is a satisfiable "two conflicting accesses at the same instant".

import (
	"fmt"
	"sort"

	"golang.org/x/tools/go/ssa"
)

const (
	evLock = iota
	evUnlock
	evRLock
	evRUnlock
	evRead
	evWrite
	evSpawn
	evSend
	evRecv
	evClose
	evStart
)

type locKey struct {
	cell *Cell
	arr  *ArrObj
	idx  int
	m    *MapVal
}

type event struct {
	thread int // logical thread index
	kind   int
	loc    locKey
	mu     *Cell
	ch     *ChanVal
	child  int // spawned logical thread
	where  string
}

type evThread struct {
	g   int
	tag string
}

type eventLogT struct {
	events    []event
	threads   []evThread
	tindex    map[evThread]int
	watermark int
	gtag      map[int]string // goroutine id -> op tag
	gthread   map[int]int    // goroutine id -> logical thread (for spawned goroutines)
	lastKey   map[int]string // per thread: last recorded access (dedup)
}

func (ex *Exec) evlog() *eventLogT {
	if ex.evl == nil {
		ex.evl = &eventLogT{tindex: map[evThread]int{}, gtag: map[int]string{}, gthread: map[int]int{}, lastKey: map[int]string{}, watermark: -1}
	}
	return ex.evl
}

func (l *eventLogT) threadOf(g int, tag string) int {
	k := evThread{g, tag}
	if i, ok := l.tindex[k]; ok {
		return i
	}
	i := len(l.threads)
	l.threads = append(l.threads, k)
	l.tindex[k] = i
	return i
}

func (ex *Exec) curThread() int {
	l := ex.evlog()
	g := ex.curG.id
	return l.threadOf(g, l.gtag[g])
}

func (ex *Exec) whereNow() string {
	if f := ex.curFrame(); f != nil {
		s := f.fn.String()
		if f.caller != nil {
			s += " <- " + f.caller.fn.String()
		}
		return s
	}
	return ""
}

func (ex *Exec) evAccess(c *Cell, a *ArrObj, idx int, write bool) {
	l := ex.evlog()
	if l.gtag[ex.curG.id] == "" {
		return
	}
	var k locKey
	if c != nil {
		if c.id > l.watermark {
			return
		}
		k.cell = c
	} else {
		if a == nil || a.id > l.watermark {
			return
		}
		k.arr, k.idx = a, idx
		if idx < 0 {
			k.idx = -1
		}
	}
	ex.evRecordAccess(k, write)
}

func (ex *Exec) evRecordAccess(k locKey, write bool) {
	l := ex.evlog()
	t := ex.curThread()
	kind := evRead
	if write {
		kind = evWrite
	}
	key := fmt.Sprintf("%p/%p/%d/%p/%d", k.cell, k.arr, k.idx, k.m, kind)
	if l.lastKey[t] == key {
		return
	}
	l.lastKey[t] = key
	l.events = append(l.events, event{thread: t, kind: kind, loc: k, where: ex.whereNow()})
}

func (ex *Exec) evMap(m *MapVal, write bool) {
	l := ex.evlog()
	if l.gtag[ex.curG.id] == "" || m == nil || m.id > l.watermark {
		return
	}
	ex.evRecordAccess(locKey{m: m}, write)
}

func (ex *Exec) evLock(mu Value, op string) {
	l := ex.evlog()
	if l.gtag[ex.curG.id] == "" {
		return
	}
	p, ok := mu.(*PtrVal)
	if !ok || p.cell == nil {
		return
	}
	kind := map[string]int{"Lock": evLock, "Unlock": evUnlock, "RLock": evRLock, "RUnlock": evRUnlock}[op]
	if len(ex.opGors) > 0 {
		ex.muAcquireRelease(p.cell, kind)
	}
	t := ex.curThread()
	l.lastKey[t] = ""
	l.events = append(l.events, event{thread: t, kind: kind, mu: p.cell, where: ex.whereNow()})
	if len(ex.opGors) > 0 && (kind == evUnlock || kind == evRUnlock) {
		ex.maybePreempt()
	}
}

const maxPreemptions = 2

type muSt struct {
	writer  bool
	readers int
	waiters []*gor // goroutines parked until the next release of this mutex
}

// otherOps: operation threads (and goroutines they spawned) that could run instead of the current one.
func (ex *Exec) otherRunnable() []*gor {
	var r []*gor
	for _, g := range ex.sched.gs {
		if g != ex.curG && g != ex.sched.main && !g.done && !g.blocked {
			r = append(r, g)
		}
	}
	return r
}

// muAcquireRelease gives mutexes their blocking semantics while operation threads are interleaved.
func (ex *Exec) muAcquireRelease(mu *Cell, kind int) {
	st := ex.muState[mu]
	if st == nil {
		st = &muSt{}
		ex.muState[mu] = st
	}
	wait := func(busy func() bool) {
		for busy() {
			// park until the mutex is released: a waiter is not runnable, so that two waiters can
			// not hand the processor to each other for ever while the holder never runs
			g := ex.curG
			g.blocked = true
			st.waiters = append(st.waiters, g)
			o := ex.otherRunnable()
			if len(o) == 0 {
				g.blocked = false
				panic(pathEnd{kind: "deadlock", msg: "goroutine waits for a mutex that no runnable goroutine can release"})
			}
			ex.switchTo(o[0])
		}
	}
	release := func() {
		for _, w := range st.waiters {
			w.blocked = false
		}
		st.waiters = nil
	}
	switch kind {
	case evLock:
		wait(func() bool { return st.writer || st.readers > 0 })
		st.writer = true
	case evRLock:
		wait(func() bool { return st.writer })
		st.readers++
	case evUnlock:
		st.writer = false
		release()
	case evRUnlock:
		if st.readers > 0 {
			st.readers--
		}
		release()
	}
}

// maybePreempt: a scheduling point after a critical section.
func (ex *Exec) maybePreempt() {
	bound := maxPreemptions
	if ex.schedBound > 0 {
		bound = ex.schedBound
	}
	if ex.preemptions >= bound {
		return
	}
	o := ex.otherRunnable()
	if len(o) == 0 {
		return
	}
	if k := ex.Choose(len(o)+1, "preempt after critical section"); k > 0 {
		ex.preemptions++
		ex.switchTo(o[k-1])
	}
}

// stressRounds: violations found under a non-default schedule cannot be replayed by one native run.
func (ex *Exec) stressRounds() int {
	if ex.preemptions > 0 {
		return 3000
	}
	return 0
}

func (ex *Exec) evSpawn(g *gor) {
	l := ex.evlog()
	tag := l.gtag[ex.curG.id]
	if tag == "" {
		return
	}
	// the child inherits the operation tag; it is a logical thread of its own
	l.gtag[g.id] = tag + "/go" + fmt.Sprint(g.id)
	child := l.threadOf(g.id, l.gtag[g.id])
	t := ex.curThread()
	l.lastKey[t] = ""
	l.events = append(l.events, event{thread: t, kind: evSpawn, child: child, where: ex.whereNow()})
}

func (ex *Exec) evChan(ch *ChanVal, op string) {
	l := ex.evlog()
	if l.gtag[ex.curG.id] == "" {
		return
	}
	kind := map[string]int{"send": evSend, "recv": evRecv, "close": evClose}[op]
	t := ex.curThread()
	l.lastKey[t] = ""
	l.events = append(l.events, event{thread: t, kind: kind, ch: ch, where: ex.whereNow()})
}

func registerEventAPI() {
	// vEventsOn(tag): from now on the current goroutine's events belong to logical thread `tag`
	apiFns["vEventsOn"] = func(ex *Exec, fn *ssa.Function, a []Value) Value {
		l := ex.evlog()
		if l.watermark < 0 {
			l.watermark = ex.idc
		}
		ex.evOn = true
		l.gtag[ex.curG.id] = ex.tagOf(a[0])
		return nil
	}
	apiFns["vEventsOff"] = func(ex *Exec, fn *ssa.Function, a []Value) Value {
		l := ex.evlog()
		l.gtag[ex.curG.id] = ""
		return nil
	}
	// vConcurrently(f, g, ...): every function is a logical operation thread run on its own
	// goroutine of the cooperative scheduler. Schedules are explored at critical-section
	// granularity (sufficient once the race queries show that all shared accesses are protected):
	// which operation starts, and after each Unlock/RUnlock whether another operation thread gets
	// the processor, with at most maxPreemptions such switches per path (context bound).
	apiFns["vConcurrently"] = func(ex *Exec, fn *ssa.Function, a []Value) Value {
		l := ex.evlog()
		if l.watermark < 0 {
			l.watermark = ex.idc
		}
		ex.evOn = true
		fns := ex.variadicArgs(a[0])
		ex.opGors = nil
		for i, f := range fns {
			ex.spawn(f, nil, nil)
			g := ex.sched.gs[len(ex.sched.gs)-1]
			l.gtag[g.id] = string(rune('A' + i))
			ex.opGors = append(ex.opGors, g)
		}
		first := ex.Choose(len(fns), "which operation starts")
		if first > 0 {
			ex.preemptions++
		}
		ex.switchTo(ex.opGors[first])
		for {
			var next *gor
			live := 0
			for _, g := range ex.opGors {
				if !g.done {
					live++
					if !g.blocked && next == nil {
						next = g
					}
				}
			}
			if live == 0 {
				break
			}
			if next == nil {
				next = ex.pickRunnable(ex.curG)
			}
			if next == nil {
				panic(pathEnd{kind: "deadlock", msg: "operation threads are blocked for ever"})
			}
			ex.switchTo(next)
		}
		ex.opGors = nil
		return nil
	}
	// vSchedBound(n): context bound (scheduling decisions other than run-to-completion) for the
	// vConcurrently calls that follow on this path
	apiFns["vSchedBound"] = func(ex *Exec, fn *ssa.Function, a []Value) Value {
		if t, ok := a[0].(*Term); ok && t.IsConst() {
			ex.schedBound = int(t.val)
		}
		return nil
	}
	apiFns["vRaceCheck"] = func(ex *Exec, fn *ssa.Function, a []Value) Value {
		ex.raceCheck(ex.tagOf(a[0]))
		return nil
	}
}

// raceCheck encodes the recorded events as a timestamp problem and asks, for every pair of
// conflicting accesses of different logical threads, whether they can happen at the same instant.
func (ex *Exec) raceCheck(name string) {
	l := ex.evlog()
	h := ex.harness
	tt := ex.tt
	const W = 16
	n := len(l.events)
	if n == 0 {
		return
	}
	isSync := func(k int) bool { return k != evRead && k != evWrite }
	// timestamps exist for synchronisation events only; an access lives in the segment between
	// the synchronisation events that surround it in its thread
	ts := map[int]*Term{}
	for i, e := range l.events {
		if isSync(e.kind) {
			ts[i] = tt.Var(fmt.Sprintf("ts!%s!%d", name, i), W)
		}
	}
	var cons []*Term
	lastSync := map[int]int{}  // thread -> last sync event index
	firstSync := map[int]int{} // thread -> first sync event index
	spawnOf := map[int]int{}   // child thread -> spawn event index
	prevSync := make([]int, n) // for accesses: previous sync event in the thread (or spawn event of the thread, or -1)
	nextSync := make([]int, n)
	for i, e := range l.events {
		if e.kind == evSpawn {
			spawnOf[e.child] = i
		}
	}
	for i, e := range l.events {
		prevSync[i], nextSync[i] = -1, -1
		if isSync(e.kind) {
			if p, ok := lastSync[e.thread]; ok {
				cons = append(cons, tt.Ult(ts[p], ts[i]))
			} else {
				firstSync[e.thread] = i
				if sp, ok := spawnOf[e.thread]; ok {
					cons = append(cons, tt.Ult(ts[sp], ts[i]))
				}
			}
			lastSync[e.thread] = i
			continue
		}
		if p, ok := lastSync[e.thread]; ok {
			prevSync[i] = p
		} else if sp, ok := spawnOf[e.thread]; ok {
			prevSync[i] = sp
		}
	}
	next := map[int]int{}
	for i := n - 1; i >= 0; i-- {
		e := l.events[i]
		if isSync(e.kind) {
			next[e.thread] = i
		} else if nx, ok := next[e.thread]; ok {
			nextSync[i] = nx
		}
	}
	// channel edges: k-th send happens before the k-th receive completes
	sends := map[*ChanVal][]int{}
	recvs := map[*ChanVal][]int{}
	for i, e := range l.events {
		switch e.kind {
		case evSend:
			sends[e.ch] = append(sends[e.ch], i)
		case evRecv:
			recvs[e.ch] = append(recvs[e.ch], i)
		}
	}
	for ch, ss := range sends {
		rs := recvs[ch]
		for k := 0; k < len(ss) && k < len(rs); k++ {
			cons = append(cons, tt.Ult(ts[ss[k]], ts[rs[k]]))
		}
	}
	// critical sections
	type section struct {
		start, end int
		excl       bool
		mu         *Cell
		thread     int
	}
	var secs []section
	open := map[*Cell][]int{}
	for i, e := range l.events {
		switch e.kind {
		case evLock, evRLock:
			for _, si := range open[e.mu] {
				sct := secs[si]
				if sct.thread == e.thread && (sct.excl || e.kind == evLock) {
					ex.reportConcurrency(h, "no-deadlock", fmt.Sprintf("thread %s acquires a mutex it already holds at %s", l.threads[e.thread].tag, e.where))
				} else if sct.thread == e.thread && len(l.threads) > 1 {
					// recursive read lock: sync.RWMutex blocks new readers once a writer waits, so a
					// Lock by another thread between the two RLocks deadlocks both for ever
					ex.reportConcurrencyKind(h, "no-deadlock", "deadlock", fmt.Sprintf("thread %s takes a read lock it already holds at %s: deadlocks with a concurrent Lock (sync.RWMutex is not reentrant)", l.threads[e.thread].tag, e.where))
				}
			}
			secs = append(secs, section{start: i, end: -1, excl: e.kind == evLock, mu: e.mu, thread: e.thread})
			open[e.mu] = append(open[e.mu], len(secs)-1)
		case evUnlock, evRUnlock:
			os := open[e.mu]
			found := -1
			for k := len(os) - 1; k >= 0; k-- {
				if secs[os[k]].excl == (e.kind == evUnlock) {
					found = k
					break
				}
			}
			if found < 0 {
				ex.reportConcurrency(h, "no-unlock-of-unlocked", "unlock without a matching lock at "+e.where)
				continue
			}
			secs[os[found]].end = i
			open[e.mu] = append(os[:found:found], os[found+1:]...)
		}
	}
	leaks := 0
	for _, os := range open {
		leaks += len(os)
	}
	if leaks > 0 {
		ex.reportConcurrency(h, "no-lock-leak", fmt.Sprintf("%d critical section(s) never released", leaks))
	}
	for i := 0; i < len(secs); i++ {
		for j := i + 1; j < len(secs); j++ {
			a, b := secs[i], secs[j]
			if a.mu != b.mu || (!a.excl && !b.excl) || a.end < 0 || b.end < 0 || a.thread == b.thread {
				continue
			}
			cons = append(cons, tt.BOr(tt.Ult(ts[a.end], ts[b.start]), tt.Ult(ts[b.end], ts[a.start])))
		}
	}
	// conflicting accesses, grouped by location
	type acc struct {
		i     int
		write bool
	}
	byLoc := map[locKey][]acc{}
	for i, e := range l.events {
		if e.kind == evRead || e.kind == evWrite {
			byLoc[e.loc] = append(byLoc[e.loc], acc{i, e.kind == evWrite})
		}
	}
	type pair struct{ a, b int }
	var cands []pair
	seenPair := map[string]bool{}
	addPairs := func(as []acc, bs []acc, same bool) {
		for xi, x := range as {
			for yi, y := range bs {
				if same && xi >= yi {
					continue
				}
				if !x.write && !y.write {
					continue
				}
				ea, eb := l.events[x.i], l.events[y.i]
				if ea.thread == eb.thread {
					continue
				}
				// accesses in the same pair of segments are equivalent for the ordering question
				key := fmt.Sprintf("%d/%d/%d/%d/%d/%d", ea.thread, prevSync[x.i], nextSync[x.i], eb.thread, prevSync[y.i], nextSync[y.i])
				if seenPair[key] {
					continue
				}
				seenPair[key] = true
				cands = append(cands, pair{x.i, y.i})
			}
		}
	}
	var keys []locKey
	for k := range byLoc {
		keys = append(keys, k)
	}
	sort.Slice(keys, func(i, j int) bool { return byLoc[keys[i]][0].i < byLoc[keys[j]][0].i })
	for _, k := range keys {
		as := byLoc[k]
		addPairs(as, as, true)
		if k.arr != nil && k.idx >= 0 {
			if whole, ok := byLoc[locKey{arr: k.arr, idx: -1}]; ok {
				addPairs(as, whole, false)
			}
		}
	}
	h.mu.Lock()
	h.Obligations += len(cands)
	h.mu.Unlock()
	ta, tb := tt.Var("ts!"+name+"!a", W), tt.Var("ts!"+name+"!b", W)
	between := func(t *Term, i int) []*Term {
		var c []*Term
		if p := prevSync[i]; p >= 0 {
			c = append(c, tt.Ult(ts[p], t))
		}
		if nx := nextSync[i]; nx >= 0 {
			c = append(c, tt.Ult(t, ts[nx]))
		}
		return c
	}
	reported := map[string]bool{}
	for _, p := range cands {
		q := append([]*Term(nil), cons...)
		q = append(q, between(ta, p.a)...)
		q = append(q, between(tb, p.b)...)
		q = append(q, tt.Eq(ta, tb))
		r, _ := ex.solver.Check(q, false, nil, nil)
		switch r {
		case Unsat:
			h.mu.Lock()
			h.Discharged++
			h.mu.Unlock()
		case Sat:
			ea, eb := l.events[p.a], l.events[p.b]
			msg := fmt.Sprintf("data race between thread %s at %s and thread %s at %s", l.threads[ea.thread].tag, ea.where, l.threads[eb.thread].tag, eb.where)
			if !reported[msg] {
				reported[msg] = true
				ex.reportConcurrency(h, "no-data-race", msg)
			}
		default:
			h.mu.Lock()
			h.Inconcl["solver unknown on race query"]++
			h.mu.Unlock()
		}
	}
	// ------------------------------------------------------------------------------------------
	// Atomicity (the premise of the linearizability argument): two operations must be conflict-
	// serializable, i.e. there is no schedule in which an access of A precedes a conflicting access
	// of B while another access of B precedes a conflicting access of A. With every operation's
	// shared accesses inside one critical section this is unsat by mutual exclusion; an operation
	// that checks in one critical section and acts in another admits the cycle.
	type segKey struct{ thread, prev, next int }
	segOf := func(i int) segKey { return segKey{l.events[i].thread, prevSync[i], nextSync[i]} }
	opOf := func(i int) string { return l.threads[l.events[i].thread].tag }
	type confl struct{ a, b int } // representative events: a in op X, b in op Y, conflicting on one location
	conflicts := map[[2]string][]confl{}
	seenConf := map[string]bool{}
	for _, k := range keys {
		as := byLoc[k]
		for _, x := range as {
			for _, y := range as {
				if x.i == y.i || (!x.write && !y.write) {
					continue
				}
				ox, oy := opOf(x.i), opOf(y.i)
				if ox == oy || ox == "" || oy == "" {
					continue
				}
				key := fmt.Sprintf("%v/%v", segOf(x.i), segOf(y.i))
				if seenConf[key] {
					continue
				}
				seenConf[key] = true
				conflicts[[2]string{ox, oy}] = append(conflicts[[2]string{ox, oy}], confl{x.i, y.i})
			}
		}
	}
	var opPairs [][2]string
	for k := range conflicts {
		if k[0] < k[1] {
			opPairs = append(opPairs, k)
		}
	}
	sort.Slice(opPairs, func(i, j int) bool { return opPairs[i][0]+opPairs[i][1] < opPairs[j][0]+opPairs[j][1] })
	tv := []*Term{tt.Var("ts!"+name+"!a1", W), tt.Var("ts!"+name+"!b1", W), tt.Var("ts!"+name+"!b2", W), tt.Var("ts!"+name+"!a2", W)}
	order := func(x, y int, tx, ty *Term) []*Term {
		ex1, ey := l.events[x], l.events[y]
		if ex1.thread != ey.thread || segOf(x) == segOf(y) {
			return nil
		}
		if x < y {
			return []*Term{tt.Ult(tx, ty)}
		}
		return []*Term{tt.Ult(ty, tx)}
	}
	atomReported := map[string]bool{}
	for _, pk := range opPairs {
		ab := conflicts[pk] // a in A, b in B
		for _, c1 := range ab {
			for _, c2 := range ab {
				// A.a1 -> B.b1 and B.b2 -> A.a2
				a1, b1, b2, a2 := c1.a, c1.b, c2.b, c2.a
				if segOf(a1) == segOf(a2) && segOf(b1) == segOf(b2) {
					continue // one segment each: a data race if unprotected, excluded by the lock otherwise
				}
				h.mu.Lock()
				h.Obligations++
				h.mu.Unlock()
				q := append([]*Term(nil), cons...)
				q = append(q, between(tv[0], a1)...)
				q = append(q, between(tv[1], b1)...)
				q = append(q, between(tv[2], b2)...)
				q = append(q, between(tv[3], a2)...)
				q = append(q, tt.Ult(tv[0], tv[1]), tt.Ult(tv[2], tv[3]))
				q = append(q, order(a1, a2, tv[0], tv[3])...)
				q = append(q, order(b1, b2, tv[1], tv[2])...)
				r, _ := ex.solver.Check(q, false, nil, nil)
				switch r {
				case Unsat:
					h.mu.Lock()
					h.Discharged++
					h.mu.Unlock()
				case Sat:
					msg := fmt.Sprintf("operations %s and %s are not conflict-serializable: %s (%s) can precede %s (%s) while %s (%s) precedes %s (%s)",
						pk[0], pk[1], l.events[a1].where, pk[0], l.events[b1].where, pk[1], l.events[b2].where, pk[1], l.events[a2].where, pk[0])
					short := pk[0] + "/" + pk[1]
					if !atomReported[short] {
						atomReported[short] = true
						ex.reportConcurrencyKind(h, "operations-serializable@"+name, "atomicity", msg)
					} else {
						h.mu.Lock()
						h.Discharged++ // same operation pair, already reported once
						h.mu.Unlock()
					}
				default:
					h.mu.Lock()
					h.Inconcl["solver unknown on serializability query"]++
					h.mu.Unlock()
				}
			}
		}
	}
	h.mu.Lock()
	if len(h.Samples) < 6 {
		h.Samples = append(h.Samples, fmt.Sprintf("race encoding %s: %d events (%d synchronisation events with timestamp variables), %d logical threads, %d critical sections, %d segment pairs queried", name, n, len(ts), len(l.threads), len(secs), len(cands)))
	}
	h.mu.Unlock()
}

func (ex *Exec) reportConcurrency(h *Harness, tag, msg string) {
	ex.reportConcurrencyKind(h, tag, "race", msg)
}

func (ex *Exec) reportConcurrencyKind(h *Harness, tag, kind, msg string) {
	r := ex.runner
	// known-finding regions apply as for assertions
	listed := ex.knownRegionTerms(r)
	inKnown := ""
	for _, rg := range listed {
		if rg.cond.IsTrue() {
			inKnown = rg.slug
		}
	}
	res, m := ex.check(nil, true)
	if res != Sat {
		m = nil
	} else {
		m = ex.realize(nil, m)
	}
	in, order := ex.modelInputs(m)
	v := &Violation{Harness: h.Name, Tag: tag, Kind: kind, Msg: msg, Inputs: in, Order: order, Region: inKnown, Stress: ex.stressRounds()}
	h.mu.Lock()
	h.Obligations++
	if inKnown != "" {
		h.Known = append(h.Known, v)
	} else {
		h.Violations = append(h.Violations, v)
	}
	h.mu.Unlock()
}
