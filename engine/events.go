package main

// Event mode (C08): the engine records, per logical thread, lock operations and accesses to
// objects that existed before the concurrent phase began; the schedule is then a vector of SMT
// timestamps and a data race is a satisfiable "two conflicting accesses at the same instant".

import (
	"fmt"
	"sort"

	"golang.org/x/tools/go/ssa"
)

const (
	evLock = iota
	evUnlock
	evRLock
	evRUnlock
	evRead
	evWrite
	evSpawn
	evSend
	evRecv
	evClose
	evStart
)

type locKey struct {
	cell *Cell
	arr  *ArrObj
	idx  int
	m    *MapVal
}

type event struct {
	thread int // logical thread index
	kind   int
	loc    locKey
	mu     *Cell
	ch     *ChanVal
	child  int // spawned logical thread
	where  string
}

type evThread struct {
	g   int
	tag string
}

type eventLogT struct {
	events    []event
	threads   []evThread
	tindex    map[evThread]int
	watermark int
	gtag      map[int]string // goroutine id -> op tag
	gthread   map[int]int    // goroutine id -> logical thread (for spawned goroutines)
	lastKey   map[int]string // per thread: last recorded access (dedup)
}

func (ex *Exec) evlog() *eventLogT {
	if ex.evl == nil {
		ex.evl = &eventLogT{tindex: map[evThread]int{}, gtag: map[int]string{}, gthread: map[int]int{}, lastKey: map[int]string{}, watermark: -1}
	}
	return ex.evl
}

func (l *eventLogT) threadOf(g int, tag string) int {
	k := evThread{g, tag}
	if i, ok := l.tindex[k]; ok {
		return i
	}
	i := len(l.threads)
	l.threads = append(l.threads, k)
	l.tindex[k] = i
	return i
}

func (ex *Exec) curThread() int {
	l := ex.evlog()
	g := ex.curG.id
	return l.threadOf(g, l.gtag[g])
}

func (ex *Exec) whereNow() string {
	if f := ex.curFrame(); f != nil {
		s := f.fn.String()
		if f.caller != nil {
			s += " <- " + f.caller.fn.String()
		}
		return s
	}
	return ""
}

func (ex *Exec) evAccess(c *Cell, a *ArrObj, idx int, write bool) {
	l := ex.evlog()
	if l.gtag[ex.curG.id] == "" {
		return
	}
	var k locKey
	if c != nil {
		if c.id > l.watermark {
			return
		}
		k.cell = c
	} else {
		if a == nil || a.id > l.watermark {
			return
		}
		k.arr, k.idx = a, idx
		if idx < 0 {
			k.idx = -1
		}
	}
	ex.evRecordAccess(k, write)
}

func (ex *Exec) evRecordAccess(k locKey, write bool) {
	l := ex.evlog()
	t := ex.curThread()
	kind := evRead
	if write {
		kind = evWrite
	}
	key := fmt.Sprintf("%p/%p/%d/%p/%d", k.cell, k.arr, k.idx, k.m, kind)
	if l.lastKey[t] == key {
		return
	}
	l.lastKey[t] = key
	l.events = append(l.events, event{thread: t, kind: kind, loc: k, where: ex.whereNow()})
}

func (ex *Exec) evMap(m *MapVal, write bool) {
	l := ex.evlog()
	if l.gtag[ex.curG.id] == "" || m == nil || m.id > l.watermark {
		return
	}
	ex.evRecordAccess(locKey{m: m}, write)
}

func (ex *Exec) evLock(mu Value, op string) {
	l := ex.evlog()
	if l.gtag[ex.curG.id] == "" {
		return
	}
	p, ok := mu.(*PtrVal)
	if !ok || p.cell == nil {
		return
	}
	kind := map[string]int{"Lock": evLock, "Unlock": evUnlock, "RLock": evRLock, "RUnlock": evRUnlock}[op]
	t := ex.curThread()
	l.lastKey[t] = ""
	l.events = append(l.events, event{thread: t, kind: kind, mu: p.cell, where: ex.whereNow()})
}

func (ex *Exec) evSpawn(g *gor) {
	l := ex.evlog()
	tag := l.gtag[ex.curG.id]
	if tag == "" {
		return
	}
	// the child inherits the operation tag; it is a logical thread of its own
	l.gtag[g.id] = tag + "/go" + fmt.Sprint(g.id)
	child := l.threadOf(g.id, l.gtag[g.id])
	t := ex.curThread()
	l.lastKey[t] = ""
	l.events = append(l.events, event{thread: t, kind: evSpawn, child: child, where: ex.whereNow()})
}

func (ex *Exec) evChan(ch *ChanVal, op string) {
	l := ex.evlog()
	if l.gtag[ex.curG.id] == "" {
		return
	}
	kind := map[string]int{"send": evSend, "recv": evRecv, "close": evClose}[op]
	t := ex.curThread()
	l.lastKey[t] = ""
	l.events = append(l.events, event{thread: t, kind: kind, ch: ch, where: ex.whereNow()})
}

func registerEventAPI() {
	// vEventsOn(tag): from now on the current goroutine's events belong to logical thread `tag`
	apiFns["vEventsOn"] = func(ex *Exec, fn *ssa.Function, a []Value) Value {
		l := ex.evlog()
		if l.watermark < 0 {
			l.watermark = ex.idc
		}
		ex.evOn = true
		l.gtag[ex.curG.id] = ex.tagOf(a[0])
		return nil
	}
	apiFns["vEventsOff"] = func(ex *Exec, fn *ssa.Function, a []Value) Value {
		l := ex.evlog()
		l.gtag[ex.curG.id] = ""
		return nil
	}
	// vConcurrently(f, g): symbolically f then g, each as its own logical thread
	apiFns["vConcurrently"] = func(ex *Exec, fn *ssa.Function, a []Value) Value {
		l := ex.evlog()
		if l.watermark < 0 {
			l.watermark = ex.idc
		}
		ex.evOn = true
		g := ex.curG.id
		for i, f := range ex.variadicArgs(a[0]) {
			l.gtag[g] = string(rune('A' + i))
			ex.callValue(f, nil, nil)
		}
		l.gtag[g] = ""
		return nil
	}
	apiFns["vRaceCheck"] = func(ex *Exec, fn *ssa.Function, a []Value) Value {
		ex.raceCheck(ex.tagOf(a[0]))
		return nil
	}
}

// raceCheck encodes the recorded events as a timestamp problem and asks, for every pair of
// conflicting accesses of different logical threads, whether they can happen at the same instant.
func (ex *Exec) raceCheck(name string) {
	l := ex.evlog()
	h := ex.harness
	tt := ex.tt
	const W = 16
	n := len(l.events)
	if n == 0 {
		return
	}
	if n > 20000 {
		ex.unsupported("too many events for the race encoding")
	}
	ts := make([]*Term, n)
	for i := range ts {
		ts[i] = tt.Var(fmt.Sprintf("ts!%s!%d", name, i), W)
	}
	var cons []*Term
	// program order per thread; spawn edges
	last := map[int]int{}
	first := map[int]int{}
	for i, e := range l.events {
		if p, ok := last[e.thread]; ok {
			cons = append(cons, tt.Ult(ts[p], ts[i]))
		} else {
			first[e.thread] = i
		}
		last[e.thread] = i
	}
	for i, e := range l.events {
		if e.kind == evSpawn {
			if f, ok := first[e.child]; ok {
				cons = append(cons, tt.Ult(ts[i], ts[f]))
			}
		}
	}
	// channel edges: k-th send happens before k-th receive completes
	sends := map[*ChanVal][]int{}
	recvs := map[*ChanVal][]int{}
	for i, e := range l.events {
		switch e.kind {
		case evSend:
			sends[e.ch] = append(sends[e.ch], i)
		case evRecv:
			recvs[e.ch] = append(recvs[e.ch], i)
		}
	}
	for ch, ss := range sends {
		rs := recvs[ch]
		for k := 0; k < len(ss) && k < len(rs); k++ {
			cons = append(cons, tt.Ult(ts[ss[k]], ts[rs[k]]))
		}
	}
	// critical sections
	type section struct {
		start, end int
		excl       bool
		mu         *Cell
		thread     int
	}
	var secs []section
	open := map[*Cell][]int{} // indices into secs of open sections
	leaks := 0
	for i, e := range l.events {
		switch e.kind {
		case evLock, evRLock:
			// self-deadlock: this logical thread already holds the mutex exclusively (or asks for
			// exclusive access while holding it)
			for _, si := range open[e.mu] {
				s := secs[si]
				if s.thread == e.thread && (s.excl || e.kind == evLock) {
					ex.reportConcurrency(h, "no-deadlock", fmt.Sprintf("thread %s acquires a mutex it already holds at %s", l.threads[e.thread].tag, e.where))
				}
			}
			secs = append(secs, section{start: i, end: -1, excl: e.kind == evLock, mu: e.mu, thread: e.thread})
			open[e.mu] = append(open[e.mu], len(secs)-1)
		case evUnlock, evRUnlock:
			os := open[e.mu]
			found := -1
			for k := len(os) - 1; k >= 0; k-- {
				if secs[os[k]].excl == (e.kind == evUnlock) {
					found = k
					break
				}
			}
			if found < 0 {
				ex.reportConcurrency(h, "no-unlock-of-unlocked", "unlock without a matching lock at "+e.where)
				continue
			}
			secs[os[found]].end = i
			open[e.mu] = append(os[:found:found], os[found+1:]...)
		}
	}
	for _, os := range open {
		leaks += len(os)
	}
	if leaks > 0 {
		ex.reportConcurrency(h, "no-lock-leak", fmt.Sprintf("%d critical section(s) never released", leaks))
	}
	// section membership of every event: a section covers events between start and end that
	// are ordered after start and before end by program/spawn order; we use the timestamp
	// constraints start < e < end only for the thread(s) that perform start and end.
	// mutual exclusion between sections of different logical threads
	for i := 0; i < len(secs); i++ {
		for j := i + 1; j < len(secs); j++ {
			a, b := secs[i], secs[j]
			if a.mu != b.mu || (!a.excl && !b.excl) || a.end < 0 || b.end < 0 {
				continue
			}
			if a.thread == b.thread {
				continue
			}
			cons = append(cons, tt.BOr(tt.Ult(ts[a.end], ts[b.start]), tt.Ult(ts[b.end], ts[a.start])))
		}
	}
	// conflicting accesses
	type acc struct {
		i     int
		write bool
	}
	byLoc := map[locKey][]acc{}
	for i, e := range l.events {
		if e.kind == evRead || e.kind == evWrite {
			byLoc[e.loc] = append(byLoc[e.loc], acc{i, e.kind == evWrite})
		}
	}
	// whole-array accesses (idx -1, from copy/append) conflict with every element access
	type pair struct{ a, b int }
	var cands []pair
	addPairs := func(as []acc, bs []acc) {
		seen := map[string]bool{}
		for _, x := range as {
			for _, y := range bs {
				if x.i >= y.i && &as[0] == &bs[0] {
					continue
				}
				if !x.write && !y.write {
					continue
				}
				ex1, ey := l.events[x.i], l.events[y.i]
				if ex1.thread == ey.thread {
					continue
				}
				key := fmt.Sprintf("%d/%d/%v/%v/%s/%s", ex1.thread, ey.thread, x.write, y.write, ex1.where, ey.where)
				if seen[key] {
					continue
				}
				seen[key] = true
				cands = append(cands, pair{x.i, y.i})
			}
		}
	}
	var keys []locKey
	for k := range byLoc {
		keys = append(keys, k)
	}
	sort.Slice(keys, func(i, j int) bool { return byLoc[keys[i]][0].i < byLoc[keys[j]][0].i })
	for _, k := range keys {
		as := byLoc[k]
		addPairs(as, as)
		if k.arr != nil && k.idx >= 0 {
			if whole, ok := byLoc[locKey{arr: k.arr, idx: -1}]; ok {
				addPairs(as, whole)
			}
		}
	}
	h.mu.Lock()
	h.Obligations += len(cands)
	h.mu.Unlock()
	reported := map[string]bool{}
	for _, p := range cands {
		q := append(append([]*Term(nil), cons...), tt.Eq(ts[p.a], ts[p.b]))
		r, _ := ex.solver.Check(q, false, nil, nil)
		switch r {
		case Unsat:
			h.mu.Lock()
			h.Discharged++
			h.mu.Unlock()
		case Sat:
			ea, eb := l.events[p.a], l.events[p.b]
			msg := fmt.Sprintf("data race between thread %s at %s and thread %s at %s", l.threads[ea.thread].tag, ea.where, l.threads[eb.thread].tag, eb.where)
			if !reported[msg] {
				reported[msg] = true
				ex.reportConcurrency(h, "no-data-race", msg)
			}
		default:
			h.mu.Lock()
			h.Inconcl["solver unknown on race query"]++
			h.mu.Unlock()
		}
	}
	h.mu.Lock()
	if len(h.Samples) < 6 {
		h.Samples = append(h.Samples, fmt.Sprintf("race encoding %s: %d events, %d logical threads, %d critical sections, %d candidate pairs", name, n, len(l.threads), len(secs), len(cands)))
	}
	h.mu.Unlock()
}

func (ex *Exec) reportConcurrency(h *Harness, tag, msg string) {
	r := ex.runner
	// known-finding regions apply as for assertions
	listed := ex.knownRegionTerms(r)
	inKnown := ""
	for _, rg := range listed {
		if rg.cond.IsTrue() {
			inKnown = rg.slug
		}
	}
	res, m := ex.check(nil, true)
	if res != Sat {
		m = nil
	}
	in, order := ex.modelInputs(m)
	v := &Violation{Harness: h.Name, Tag: tag, Kind: "race", Msg: msg, Inputs: in, Order: order, Region: inKnown}
	h.mu.Lock()
	h.Obligations++
	if inKnown != "" {
		h.Known = append(h.Known, v)
	} else {
		h.Violations = append(h.Violations, v)
	}
	h.mu.Unlock()
}
