package main

func (ex *Exec) evAccess(c *Cell, a *ArrObj, idx int, write bool) {}
func (ex *Exec) evMap(m *MapVal, write bool)                      {}
func (ex *Exec) evLock(mu Value, op string)                       {}
func (ex *Exec) evSpawn(g *gor)                                   {}
func (ex *Exec) evChan(ch *ChanVal, op string)                    {}
