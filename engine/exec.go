package main

// Symbolic interpreter for go/ssa. One Exec per worker; one path per run() call; forking is done by
// re-execution under a recorded decision prefix (see explore.go).

import (
	"fmt"
	"os"
	"sync"
	"go/constant"
	"go/token"
	"go/types"
	"strings"

	"golang.org/x/tools/go/ssa"
)

type engineError struct{ msg string }

var traceCalls = os.Getenv("GOSMT_TRACE") != ""
var traceFS = os.Getenv("GOSMT_TRACE_FS") != ""

// pathEnd aborts the current path (engine-level, not a Go panic of the program under test).
type pathEnd struct {
	kind string // "unsupported" | "infeasible" | "bound" | "done" | "abort"
	msg  string
}

// goPanic is a Go-level panic of the program under test, propagating through host frames.
type goPanic struct {
	val   Value
	msg   string
	stack string
}

type deferred struct {
	fn   Value
	args []Value
	call *ssa.CallCommon
}

type Frame struct {
	fn        *ssa.Function
	env       []Value
	info      *fnInfo
	defers    []deferred
	panicking *goPanic
	recovered bool
	caller    *Frame
	block     *ssa.BasicBlock
	g         *gor
	loops     map[*ssa.BasicBlock]int
}

type fnInfo struct {
	idx map[ssa.Value]int
	n   int
}

type Config struct {
	maxSteps    int
	maxLoop     int
	maxDepth    int
	maxIteChain int
	maxConcretize int
	timeoutMs   int
	solverKind  string
	eventMode   bool
	maxAllocCells int
	bigAlloc      int
}

type Exec struct {
	prog    *ssa.Program
	tt      *TermTable
	solver  *Solver
	cfg     Config
	finfo   map[*ssa.Function]*fnInfo
	idc     int
	globals map[*ssa.Global]*Cell
	inited  map[*ssa.Package]bool
	steps   int
	depth   int

	// path state
	pc        []*Term
	model     *Model
	prefix    []decision
	trace     []decision
	pending   [][]decision // alternatives discovered on this path
	inputs    []*Term      // symbolic input variables created on this path (in order)
	inputTags []string
	covers    map[string]bool
	regions   []regionDecl
	assumes   int
	unknownBranches int
	violations []*Violation
	funcsSeen map[*ssa.Function]bool
	stubsUsed map[string]bool
	notes     map[string]bool
	mapNondet bool
	hashMemo  []hashEntry
	cborMemo  []cborEntry
	fs        *modelFS
	sched     *scheduler
	curG      *gor
	events    *eventLog
	allocBound []allocRec
	harness   *Harness
	sentinels map[string]*IfaceVal
	totalSteps int64
	typeMethodCache map[string]*ssa.Function
	runner       *Runner
	allocCheckOn bool
	allocSlack   *Term
	allocLimit   *Term
	tagCount     map[string]int
	onceDone     map[*Cell]bool
	branchSites  int
	evOn         bool
	qcache       map[string]cacheEntry
	auxVars      []*Term
	constCache   map[*ssa.Const]Value
	pools        map[*Cell][]Value
	condWaiters  map[*Cell][]*gor
	abstracted   bool // this path used an over-approximating model
	opGors       []*gor          // logical operation threads of vConcurrently (interleaving exploration)
	schedBound   int             // context bound set by the harness (0: default)
	preemptions  int             // scheduling decisions other than run-to-completion taken on this path
	muState      map[*Cell]*muSt // mutex model while operation threads are live
	evl          *eventLogT
	hashInjective bool
	cacheHits    int
}

func (ex *Exec) nextID() int { ex.idc++; return ex.idc }

func (ex *Exec) unsupported(msg string) {
	where := ""
	if f := ex.curFrame(); f != nil {
		where = " [in " + f.fn.String()
		if f.caller != nil {
			where += " <- " + f.caller.fn.String()
			if f.caller.caller != nil {
				where += " <- " + f.caller.caller.fn.String()
			}
		}
		where += "]"
	}
	panic(pathEnd{kind: "unsupported", msg: msg + where})
}

func (ex *Exec) goPanicStr(msg string) {
	panic(&goPanic{val: &IfaceVal{t: types.Typ[types.String], v: ex.strConst(msg)}, msg: msg, stack: ex.stackString()})
}

func (ex *Exec) stackString() string {
	var sb strings.Builder
	n := 0
	for f := ex.curFrame(); f != nil && n < 12; f = f.caller {
		sb.WriteString(f.fn.String())
		sb.WriteString(" <- ")
		n++
	}
	return sb.String()
}

func (ex *Exec) curFrame() *Frame {
	if ex.curG == nil {
		return nil
	}
	return ex.curG.frame
}

func (ex *Exec) info(fn *ssa.Function) *fnInfo {
	if fi, ok := ex.finfo[fn]; ok {
		return fi
	}
	fi := &fnInfo{idx: map[ssa.Value]int{}}
	for _, p := range fn.Params {
		fi.idx[p] = fi.n
		fi.n++
	}
	for _, fv := range fn.FreeVars {
		fi.idx[fv] = fi.n
		fi.n++
	}
	for _, b := range fn.Blocks {
		for _, in := range b.Instrs {
			if v, ok := in.(ssa.Value); ok {
				fi.idx[v] = fi.n
				fi.n++
			}
		}
	}
	ex.finfo[fn] = fi
	return fi
}

// ---------------------------------------------------------------- operand evaluation

func (ex *Exec) get(fr *Frame, v ssa.Value) Value {
	switch x := v.(type) {
	case *ssa.Const:
		if v, ok := ex.constCache[x]; ok {
			return v
		}
		v := ex.constVal(x)
		switch v.(type) {
		case *Term, *StrVal:
			ex.constCache[x] = v
		}
		return v
	case *ssa.Global:
		return &PtrVal{cell: ex.global(x)}
	case *ssa.Function:
		return &FuncVal{fn: x}
	case *ssa.Builtin:
		return &FuncVal{builtin: x}
	}
	i, ok := fr.info.idx[v]
	if !ok {
		ex.unsupported("unknown ssa value " + v.Name() + " in " + fr.fn.String())
	}
	return fr.env[i]
}

func (ex *Exec) set(fr *Frame, v ssa.Value, val Value) {
	fr.env[fr.info.idx[v]] = val
}

func (ex *Exec) constVal(c *ssa.Const) Value {
	t := c.Type()
	if c.Value == nil {
		return ex.zero(t)
	}
	if tp, ok := t.(*types.TypeParam); ok {
		_ = tp
		ex.unsupported("const of type parameter")
	}
	if w, signed, ok := bvInfo(t); ok {
		if w == 0 {
			return ex.tt.Bool(constant.BoolVal(c.Value))
		}
		if signed {
			return ex.tt.BV(uint64(c.Int64()), w)
		}
		return ex.tt.BV(c.Uint64(), w)
	}
	if isString(t) {
		if c.Value.Kind() == constant.String {
			return ex.strConst(constant.StringVal(c.Value))
		}
	}
	if isFloat(t) {
		return FloatVal(c.Float64())
	}
	ex.unsupported("constant of type " + t.String())
	return nil
}

// ---------------------------------------------------------------- globals and package init

func (ex *Exec) global(g *ssa.Global) *Cell {
	if c, ok := ex.globals[g]; ok {
		return c
	}
	pkg := g.Pkg
	if pkg != nil && !ex.inited[pkg] && initAllowed(pkg.Pkg.Path()) {
		ex.runInit(pkg)
		if c, ok := ex.globals[g]; ok {
			return c
		}
	}
	et := g.Type().(*types.Pointer).Elem()
	var c *Cell
	if pkg != nil && !initAllowed(pkg.Pkg.Path()) {
		// variable of a package whose initialiser is not executed
		if types.Identical(et, errorType) {
			c = ex.newCell(ex.sentinelError(g.String()))
		} else if v, ok := ex.modelGlobal(g, et); ok {
			c = ex.newCell(v)
		} else if !globalTouchedByInit(g) {
			// no initialiser: the zero value is exact
			c = ex.newCell(ex.zero(et))
		} else {
			ex.unsupported("read of uninitialised global " + g.String())
		}
	} else {
		c = ex.newCell(ex.zero(et))
	}
	ex.globals[g] = c
	return c
}

var errorType = types.Universe.Lookup("error").Type()

// sentinelError makes a unique error value standing for an error variable whose initialiser was skipped.
func (ex *Exec) sentinelError(name string) *IfaceVal {
	if v, ok := ex.sentinels[name]; ok {
		return v
	}
	v := &IfaceVal{t: sentinelErrType, v: &OpaqueVal{kind: "sentinel-error", x: name}}
	ex.sentinels[name] = v
	return v
}

// sentinelErrType is a synthetic named type used as the dynamic type of sentinel/opaque errors.
var sentinelErrType = types.NewNamed(types.NewTypeName(token.NoPos, nil, "verifOpaqueError", nil), types.NewStruct(nil, nil), nil)

func (ex *Exec) runInit(pkg *ssa.Package) {
	ex.inited[pkg] = true
	// allocate all globals of the package first (zeroed)
	for _, m := range pkg.Members {
		if g, ok := m.(*ssa.Global); ok {
			if _, has := ex.globals[g]; !has {
				ex.globals[g] = ex.newCell(ex.zero(g.Type().(*types.Pointer).Elem()))
			}
		}
	}
	initFn := pkg.Func("init")
	if initFn == nil || initFn.Blocks == nil {
		return
	}
	saved := ex.curG.frame
	ex.callBody(initFn, nil, nil)
	ex.curG.frame = saved
}

// ---------------------------------------------------------------- calls

func (ex *Exec) callValue(fv Value, args []Value, site *ssa.CallCommon) Value {
	f, ok := fv.(*FuncVal)
	if !ok || f == nil {
		ex.goPanicStr("runtime error: invalid memory address or nil pointer dereference (call of nil func)")
	}
	if f.native != nil {
		ex.matArgs(args)
		return f.native(ex, args)
	}
	if f.builtin != nil {
		return ex.callBuiltin(f.builtin, args, site)
	}
	return ex.callFunction(f.fn, args, f.fv)
}

// intrinsics that handle slices of symbolic length themselves
var noMatIntrinsics = map[string]bool{"(*os.File).Read": true, "(*os.File).ReadAt": true}

type fnDispatch struct {
	api   intrinsicFn
	intr  intrinsicFn
	name  string
	isPkgInit bool
}

var dispatchCache sync.Map // *ssa.Function -> *fnDispatch

func dispatchOf(fn *ssa.Function) *fnDispatch {
	if d, ok := dispatchCache.Load(fn); ok {
		return d.(*fnDispatch)
	}
	d := &fnDispatch{}
	name := fn.String()
	if fn.Origin() != nil {
		name = fn.Origin().String()
	}
	d.name = name
	if fn.Signature.Recv() == nil && fn.Pkg != nil && len(fn.Name()) > 1 && fn.Name()[0] == 'v' {
		if f, ok := apiFns[fn.Name()]; ok {
			d.api = f
		}
	}
	if in, ok := intrinsics[name]; ok {
		d.intr = in
	}
	if fn.Name() == "init" && fn.Signature.Recv() == nil && fn.Pkg != nil && fn.Pkg.Func("init") == fn {
		d.isPkgInit = true
	}
	dispatchCache.Store(fn, d)
	return d
}

func (ex *Exec) callFunction(fn *ssa.Function, args []Value, fvs []Value) (ret Value) {
	d := dispatchOf(fn)
	if d.api != nil {
		ex.matArgs(args)
		return d.api(ex, fn, args)
	}
	if d.intr != nil {
		ex.stubsUsed[d.name] = true
		if !noMatIntrinsics[d.name] {
			ex.matArgs(args)
		}
		if traceFS && (strings.HasPrefix(d.name, "os.") || strings.HasPrefix(d.name, "(*os.File)") || strings.HasPrefix(d.name, "path/filepath.Eval")) {
			r := d.intr(ex, fn, args)
			as := ""
			for _, a := range args {
				as += " " + describe(a)
			}
			fmt.Fprintf(os.Stderr, "FS %s%s => %s\n", d.name, as, describe(r))
			return r
		}
		return d.intr(ex, fn, args)
	}
	if d.isPkgInit {
		// package initialiser called from another initialiser: handled lazily
		return nil
	}
	name := d.name
	if fn.Blocks == nil {
		if in := ex.externalModel(fn); in != nil {
			ex.stubsUsed[name] = true
			return in(ex, fn, args)
		}
		ex.unsupported("call of function without body: " + name)
	}
	return ex.callBody(fn, args, fvs)
}

func (ex *Exec) callBody(fn *ssa.Function, args []Value, fvs []Value) (ret Value) {
	if ex.depth > ex.cfg.maxDepth {
		panic(pathEnd{kind: "bound", msg: "call depth exceeded in " + fn.String()})
	}
	ex.funcsSeen[fn] = true
	if traceCalls {
		fmt.Fprintf(os.Stderr, "%*scall %s\n", ex.depth, "", fn.String())
		defer func() { fmt.Fprintf(os.Stderr, "%*sret  %s = %s\n", ex.depth, "", fn.String(), describe(ret)) }()
	}
	fi := ex.info(fn)
	g := ex.curG
	fr := &Frame{fn: fn, info: fi, env: make([]Value, fi.n), caller: g.frame, g: g}
	for i, p := range fn.Params {
		fr.env[fi.idx[p]] = args[i]
	}
	for i, v := range fn.FreeVars {
		fr.env[fi.idx[v]] = fvs[i]
	}
	g.frame = fr
	ex.depth++
	defer func() {
		ex.depth--
		if r := recover(); r != nil {
			gp, ok := r.(*goPanic)
			if !ok {
				panic(r)
			}
			g.frame = fr
			fr.panicking = gp
			ex.runDefers(fr)
			if fr.panicking != nil {
				g.frame = fr.caller
				panic(fr.panicking)
			}
			// recovered
			if fn.Recover != nil {
				ret = ex.runBlocks(fr, fn.Recover)
			} else {
				ret = ex.zeroResults(fn)
			}
		}
		g.frame = fr.caller
	}()
	return ex.runBlocks(fr, fn.Blocks[0])
}

func (ex *Exec) zeroResults(fn *ssa.Function) Value {
	res := fn.Signature.Results()
	switch res.Len() {
	case 0:
		return nil
	case 1:
		return ex.zero(res.At(0).Type())
	}
	return ex.zero(res)
}

func (ex *Exec) runDefers(fr *Frame) {
	for len(fr.defers) > 0 {
		d := fr.defers[len(fr.defers)-1]
		fr.defers = fr.defers[:len(fr.defers)-1]
		ex.runDeferred(fr, d)
	}
}

func (ex *Exec) runDeferred(fr *Frame, d deferred) {
	// a panic inside a deferred call replaces the current one
	defer func() {
		if r := recover(); r != nil {
			gp, ok := r.(*goPanic)
			if !ok {
				panic(r)
			}
			fr.panicking = gp
			fr.g.frame = fr
		}
	}()
	ex.callValue(d.fn, d.args, d.call)
}

// runBlocks executes from block b until a Return; returns the result value.
func (ex *Exec) runBlocks(fr *Frame, b *ssa.BasicBlock) Value {
	var prev *ssa.BasicBlock
	for {
		fr.block = b
		if len(b.Preds) > 1 {
			if fr.loops == nil {
				fr.loops = map[*ssa.BasicBlock]int{}
			}
			fr.loops[b]++
			if fr.loops[b] > ex.cfg.maxLoop {
				panic(pathEnd{kind: "bound", msg: fmt.Sprintf("loop bound %d exceeded at %s block %d", ex.cfg.maxLoop, fr.fn, b.Index)})
			}
		}
		// phis first (parallel assignment)
		nphi := 0
		var phiVals []Value
		for _, in := range b.Instrs {
			phi, ok := in.(*ssa.Phi)
			if !ok {
				break
			}
			for i, p := range b.Preds {
				if p == prev {
					phiVals = append(phiVals, ex.get(fr, phi.Edges[i]))
					break
				}
			}
			nphi++
		}
		for i := 0; i < nphi; i++ {
			ex.set(fr, b.Instrs[i].(*ssa.Phi), phiVals[i])
		}
		var next *ssa.BasicBlock
		for _, in := range b.Instrs[nphi:] {
			ex.steps++
			if ex.steps > ex.cfg.maxSteps {
				panic(pathEnd{kind: "bound", msg: "step bound exceeded"})
			}
			switch x := in.(type) {
			case *ssa.Jump:
				next = b.Succs[0]
			case *ssa.If:
				c := ex.get(fr, x.Cond).(*Term)
				if ex.Decide(c) {
					next = b.Succs[0]
				} else {
					next = b.Succs[1]
				}
			case *ssa.Return:
				var res Value
				switch len(x.Results) {
				case 0:
				case 1:
					res = ex.get(fr, x.Results[0])
				default:
					tv := make(TupleVal, len(x.Results))
					for i, r := range x.Results {
						tv[i] = ex.get(fr, r)
					}
					res = tv
				}
				return res
			case *ssa.Panic:
				v := ex.get(fr, x.X)
				panic(&goPanic{val: v, msg: "panic: " + describe(v), stack: ex.stackString()})
			default:
				ex.exec(fr, in)
			}
		}
		if next == nil {
			ex.unsupported("block without terminator in " + fr.fn.String())
		}
		prev, b = b, next
	}
}

func (ex *Exec) exec(fr *Frame, in ssa.Instruction) {
	switch x := in.(type) {
	case *ssa.DebugRef:
	case *ssa.UnOp:
		ex.set(fr, x, ex.unop(fr, x))
	case *ssa.BinOp:
		ex.set(fr, x, ex.binop(x.Op, x.X.Type(), ex.get(fr, x.X), ex.get(fr, x.Y), x.Y.Type()))
	case *ssa.Call:
		ex.set(fr, x, ex.doCall(fr, &x.Call))
	case *ssa.Alloc:
		et := x.Type().(*types.Pointer).Elem()
		c := ex.newCell(ex.zero(et))
		ex.set(fr, x, &PtrVal{cell: c, typ: et})
	case *ssa.Store:
		ex.store(ex.get(fr, x.Addr).(*PtrVal), ex.get(fr, x.Val))
	case *ssa.FieldAddr:
		p := ex.get(fr, x.X).(*PtrVal)
		if p.isNil() {
			ex.goPanicStr("runtime error: invalid memory address or nil pointer dereference")
		}
		var sv *StructVal
		if p.cell != nil {
			sv = p.cell.v.(*StructVal)
		} else {
			i := ex.Concretize(p.idx, "struct array index")
			sv = p.arr.e[i].(*StructVal)
		}
		ex.set(fr, x, &PtrVal{cell: sv.f[x.Field]})
	case *ssa.Field:
		sv := ex.get(fr, x.X).(*StructVal)
		ex.set(fr, x, ex.copyVal(sv.f[x.Field].v))
	case *ssa.IndexAddr:
		ex.set(fr, x, ex.indexAddr(fr, x))
	case *ssa.Index:
		ex.set(fr, x, ex.index(fr, x))
	case *ssa.Slice:
		ex.set(fr, x, ex.sliceOp(fr, x))
	case *ssa.MakeSlice:
		ex.set(fr, x, ex.makeSlice(fr, x))
	case *ssa.MakeInterface:
		ex.set(fr, x, &IfaceVal{t: x.X.Type(), v: ex.get(fr, x.X)})
	case *ssa.ChangeInterface:
		ex.set(fr, x, ex.get(fr, x.X))
	case *ssa.ChangeType:
		ex.set(fr, x, ex.get(fr, x.X))
	case *ssa.Convert:
		ex.set(fr, x, ex.convert(x.X.Type(), x.Type(), ex.matV(ex.get(fr, x.X))))
	case *ssa.MultiConvert:
		ex.set(fr, x, ex.convert(x.X.Type(), x.Type(), ex.matV(ex.get(fr, x.X))))
	case *ssa.SliceToArrayPointer:
		s := ex.mat(ex.get(fr, x.X).(*SliceVal))
		n := int(x.Type().(*types.Pointer).Elem().Underlying().(*types.Array).Len())
		if s.len < n {
			ex.goPanicStr("runtime error: cannot convert slice to array pointer: length too short")
		}
		if s.arr == nil {
			ex.set(fr, x, &PtrVal{})
		} else {
			ex.unsupported("slice to array pointer")
		}
	case *ssa.TypeAssert:
		ex.set(fr, x, ex.typeAssert(x, ex.get(fr, x.X)))
	case *ssa.Extract:
		ex.set(fr, x, ex.get(fr, x.Tuple).(TupleVal)[x.Index])
	case *ssa.MakeClosure:
		fn := x.Fn.(*ssa.Function)
		fv := make([]Value, len(x.Bindings))
		for i, b := range x.Bindings {
			fv[i] = ex.get(fr, b)
		}
		ex.set(fr, x, &FuncVal{fn: fn, fv: fv})
	case *ssa.MakeMap:
		mt := x.Type().Underlying().(*types.Map)
		ex.set(fr, x, &MapVal{kt: mt.Key(), vt: mt.Elem(), id: ex.nextID()})
	case *ssa.MapUpdate:
		ex.mapUpdate(ex.get(fr, x.Map).(*MapVal), ex.get(fr, x.Key), ex.get(fr, x.Value))
	case *ssa.Lookup:
		ex.set(fr, x, ex.lookup(fr, x))
	case *ssa.Range:
		ex.set(fr, x, ex.rangeInit(ex.get(fr, x.X)))
	case *ssa.Next:
		ex.set(fr, x, ex.rangeNext(x, ex.get(fr, x.Iter).(*RangeIter)))
	case *ssa.Defer:
		fv, args := ex.prepareCall(fr, &x.Call)
		fr.defers = append(fr.defers, deferred{fn: fv, args: args, call: &x.Call})
	case *ssa.RunDefers:
		ex.runDefers(fr)
		if fr.panicking != nil {
			p := fr.panicking
			fr.panicking = nil
			panic(p)
		}
	case *ssa.Go:
		fv, args := ex.prepareCall(fr, &x.Call)
		ex.spawn(fv, args, &x.Call)
	case *ssa.MakeChan:
		n := ex.get(fr, x.Size).(*Term)
		sz := int(ex.Concretize(n, "chan size"))
		ex.set(fr, x, &ChanVal{cap: sz, et: x.Type().Underlying().(*types.Chan).Elem(), id: ex.nextID()})
	case *ssa.Send:
		ex.chanSend(ex.get(fr, x.Chan).(*ChanVal), ex.get(fr, x.X))
	case *ssa.Select:
		ex.set(fr, x, ex.selectOp(fr, x))
	default:
		ex.unsupported(fmt.Sprintf("instruction %T in %s", in, fr.fn))
	}
}

// prepareCall resolves the callee and evaluates arguments.
func (ex *Exec) prepareCall(fr *Frame, c *ssa.CallCommon) (Value, []Value) {
	var args []Value
	var fv Value
	if c.IsInvoke() {
		recv := ex.get(fr, c.Value)
		iv, ok := recv.(*IfaceVal)
		if !ok || iv.t == nil {
			ex.goPanicStr("runtime error: invalid memory address or nil pointer dereference (method call on nil interface " + c.Method.Name() + ")")
		}
		fv = ex.lookupMethod(iv.t, c.Method)
		args = append(args, iv.v)
	} else {
		fv = ex.get(fr, c.Value)
	}
	for _, a := range c.Args {
		args = append(args, ex.get(fr, a))
	}
	return fv, args
}

func (ex *Exec) lookupMethod(t types.Type, m *types.Func) Value {
	if t == sentinelErrType {
		return &FuncVal{native: func(ex *Exec, args []Value) Value {
			return ex.strConst("opaque error")
		}, name: "opaqueError.Error"}
	}
	if nm, ok := nativeTypes[t]; ok {
		if f, ok := nm[m.Name()]; ok {
			return &FuncVal{native: f, name: m.Name()}
		}
	}
	key := t.String() + "#" + m.Id()
	if f, ok := ex.typeMethodCache[key]; ok {
		return &FuncVal{fn: f}
	}
	ms := ex.prog.MethodSets.MethodSet(t)
	sel := ms.Lookup(m.Pkg(), m.Name())
	if sel == nil {
		ex.unsupported(fmt.Sprintf("method %s not found on %s", m.Name(), t))
	}
	f := ex.prog.MethodValue(sel)
	if f == nil {
		ex.unsupported(fmt.Sprintf("no ssa function for method %s on %s", m.Name(), t))
	}
	ex.typeMethodCache[key] = f
	return &FuncVal{fn: f}
}

func (ex *Exec) doCall(fr *Frame, c *ssa.CallCommon) Value {
	fv, args := ex.prepareCall(fr, c)
	return ex.callValue(fv, args, c)
}

// ---------------------------------------------------------------- type assertions

func (ex *Exec) typeAssert(x *ssa.TypeAssert, v Value) Value {
	iv := v.(*IfaceVal)
	ok := false
	if iv.t != nil {
		if it, isI := x.AssertedType.Underlying().(*types.Interface); isI {
			ok = ex.implements(iv.t, it)
		} else {
			ok = types.Identical(iv.t, x.AssertedType)
		}
	}
	var res Value
	if ok {
		if types.IsInterface(x.AssertedType) {
			res = iv
		} else {
			res = iv.v
		}
	} else {
		if !x.CommaOk {
			ex.goPanicStr(fmt.Sprintf("interface conversion: interface is %v, not %s", iv.t, x.AssertedType))
		}
		res = ex.zero(x.AssertedType)
	}
	if x.CommaOk {
		return TupleVal{res, ex.tt.Bool(ok)}
	}
	return res
}

func (ex *Exec) implements(t types.Type, it *types.Interface) bool {
	if t == sentinelErrType {
		return it.NumMethods() == 1 && it.Method(0).Name() == "Error" || it.NumMethods() == 0
	}
	if nm, ok := nativeTypes[t]; ok {
		for i := 0; i < it.NumMethods(); i++ {
			if _, has := nm[it.Method(i).Name()]; !has {
				return false
			}
		}
		return true
	}
	return types.Implements(t, it)
}

var initTouchCache = map[*ssa.Global]bool{}
var initTouchMu sync.Mutex

// globalTouchedByInit reports whether any init function of g's package mentions g.
func globalTouchedByInit(g *ssa.Global) bool {
	initTouchMu.Lock()
	defer initTouchMu.Unlock()
	if v, ok := initTouchCache[g]; ok {
		return v
	}
	touched := false
	for name, m := range g.Pkg.Members {
		f, ok := m.(*ssa.Function)
		if !ok || !(name == "init" || strings.HasPrefix(name, "init#")) {
			continue
		}
		fns := []*ssa.Function{f}
		fns = append(fns, f.AnonFuncs...)
		for _, fn := range fns {
			for _, b := range fn.Blocks {
				for _, in := range b.Instrs {
					for _, op := range in.Operands(nil) {
						if *op == ssa.Value(g) {
							touched = true
						}
					}
				}
			}
		}
	}
	initTouchCache[g] = touched
	return touched
}

func (ex *Exec) matV(v Value) Value {
	if sv, ok := v.(*SliceVal); ok && sv != nil && sv.symLen != nil {
		return ex.mat(sv)
	}
	return v
}
