package main

// Path exploration by re-execution: a path is identified by its decision vector; alternatives found
// while running a path are queued as new prefixes.

import (
	"fmt"
	"os"
	"sort"
	"strconv"
	"strings"
	"sync"
	"time"

	"golang.org/x/tools/go/ssa"
)

type decision struct {
	taken bool
	val   uint64
	kind  uint8  // 0 = branch, 1 = choose
	model *Model // model of the path condition right after this decision (only on the last entry of a queued prefix)
}

type regionDecl struct {
	slug string
	cond *Term
}

type Violation struct {
	Harness string            `json:"harness"`
	Tag     string            `json:"tag"`
	Kind    string            `json:"kind"` // assert | panic | deadlock
	Msg     string            `json:"msg,omitempty"`
	Inputs  map[string]uint64 `json:"inputs"`
	Order   []string          `json:"order"`
	Region  string            `json:"region,omitempty"`
	Stack   string            `json:"stack,omitempty"`
	Replayed string           `json:"replayed,omitempty"`
	// Stress > 0: found on a path whose schedule is not the run-to-completion one; the native
	// replay cannot steer the scheduler and repeats the harness up to Stress times instead.
	Stress int `json:"stress,omitempty"`
	// Abstract: found on a path that went through an over-approximating model; such
	// counterexamples need not replay and do not count towards the stop quota.
	Abstract bool `json:"abstract,omitempty"`
}

type CoverWitness struct {
	Tag    string            `json:"tag"`
	Inputs map[string]uint64 `json:"inputs"`
	Order  []string          `json:"order"`
	Replayed string          `json:"replayed,omitempty"`
	// Abstract: the witness path went through an over-approximating model (abstract header
	// decode); it is replaced as soon as a path without one reaches the same cover.
	Abstract bool `json:"abstract,omitempty"`
}

type Harness struct {
	Name string
	Fn   *ssa.Function

	mu          sync.Mutex
	queue       [][]decision
	active      int
	cond        *sync.Cond
	Paths       int
	Steps       int64
	Obligations int
	Discharged  int
	Violations  []*Violation
	Known       []*Violation
	Inconcl     map[string]int
	Covers      map[string]*CoverWitness
	CoverTags   map[string]bool // all cover tags seen (reached or not)
	Funcs       map[string]bool
	Stubs       map[string]bool
	Notes       map[string]bool
	Queries     int
	SolverTime  time.Duration
	Samples     []string
	EndKinds    map[string]int
	Unknown     int
	stop        bool
	AllocChecks int
	maxPaths    int
}

type Runner struct {
	prog     *ssa.Program
	cfg      Config
	workers  int
	known    map[string]bool // listed known-finding slugs "Cxx/slug"
	propID   string
	tier     string
	eagerPkgs []*ssa.Package
	eagerOnce sync.Once
}

func (r *Runner) newExec() *Exec {
	tt := NewTermTable()
	s, err := NewSolver(r.cfg.solverKind, tt, r.cfg.timeoutMs)
	if err != nil {
		fmt.Fprintln(os.Stderr, "cannot start solver:", err)
		os.Exit(3)
	}
	return &Exec{prog: r.prog, tt: tt, solver: s, cfg: r.cfg, finfo: map[*ssa.Function]*fnInfo{}, typeMethodCache: map[string]*ssa.Function{}, constCache: map[*ssa.Const]Value{}}
}

func (r *Runner) RunHarness(h *Harness) {
	h.cond = sync.NewCond(&h.mu)
	h.queue = [][]decision{nil}
	h.Inconcl = map[string]int{}
	h.Covers = map[string]*CoverWitness{}
	h.CoverTags = map[string]bool{}
	h.Funcs = map[string]bool{}
	h.Stubs = map[string]bool{}
	h.Notes = map[string]bool{}
	h.EndKinds = map[string]int{}
	var wg sync.WaitGroup
	if os.Getenv("GOSMT_PROGRESS") != "" {
		stopTick := make(chan struct{})
		defer close(stopTick)
		go func() {
			for {
				select {
				case <-stopTick:
					return
				case <-time.After(10 * time.Second):
					h.mu.Lock()
					fmt.Fprintf(os.Stderr, "progress %s: paths=%d queue=%d active=%d queries=%d solver=%.0fs\n", h.Name, h.Paths, len(h.queue), h.active, h.Queries, h.SolverTime.Seconds())
					h.mu.Unlock()
				}
			}
		}()
	}
	for w := 0; w < r.workers; w++ {
		wg.Add(1)
		go func() {
			defer wg.Done()
			ex := r.newExec()
			defer ex.solver.Close()
			for {
				h.mu.Lock()
				for len(h.queue) == 0 && h.active > 0 && !h.stop {
					h.cond.Wait()
				}
				if len(h.queue) == 0 || h.stop {
					h.mu.Unlock()
					h.cond.Broadcast()
					return
				}
				p := h.queue[len(h.queue)-1]
				h.queue = h.queue[:len(h.queue)-1]
				h.active++
				h.mu.Unlock()

				ex.runPath(r, h, p)

				h.mu.Lock()
				h.active--
				h.queue = append(h.queue, ex.pending...)
				h.Paths++
				h.Steps += int64(ex.steps)
				if h.maxPaths > 0 && h.Paths >= h.maxPaths {
					h.stop = true
					h.Inconcl["path budget exhausted"]++
				}
				h.mu.Unlock()
				h.cond.Broadcast()
			}
		}()
	}
	wg.Wait()
}

// runPath executes one path under the given decision prefix.
func (ex *Exec) runPath(r *Runner, h *Harness, prefix []decision) {
	// reset path state
	ex.idc = 0
	ex.globals = map[*ssa.Global]*Cell{}
	ex.inited = map[*ssa.Package]bool{}
	ex.steps = 0
	ex.depth = 0
	ex.pc = nil
	ex.model = nil
	ex.prefix = prefix
	ex.trace = make([]decision, 0, len(prefix)+16)
	ex.pending = nil
	ex.inputs = nil
	ex.inputTags = nil
	ex.auxVars = nil
	ex.covers = map[string]bool{}
	ex.regions = nil
	ex.violations = nil
	ex.funcsSeen = map[*ssa.Function]bool{}
	ex.stubsUsed = map[string]bool{}
	ex.notes = map[string]bool{}
	ex.mapNondet = false
	ex.hashMemo = nil
	ex.hashInjective = false
	ex.cborMemo = nil
	ex.fs = nil
	ex.sentinels = map[string]*IfaceVal{}
	ex.harness = h
	ex.runner = r
	ex.allocCheckOn = false
	ex.allocBound = nil
	ex.events = nil
	ex.evl = nil
	ex.evOn = false
	ex.tagCount = map[string]int{}
	ex.onceDone = map[*Cell]bool{}
	ex.pools = map[*Cell][]Value{}
	ex.abstracted = false
	ex.opGors = nil
	ex.preemptions = 0
	ex.schedBound = 0
	ex.muState = map[*Cell]*muSt{}
	ex.condWaiters = map[*Cell][]*gor{}
	ex.newScheduler()
	q0, t0 := ex.solver.Queries, ex.solver.Time

	endKind, endMsg := "done", ""
	watchdogDone := make(chan struct{})
	if os.Getenv("GOSMT_PROGRESS") != "" {
		go func() {
			select {
			case <-watchdogDone:
			case <-time.After(60 * time.Second):
				fmt.Fprintf(os.Stderr, "slow path (>60s) in %s: steps=%d decisions=%d at %s\n", h.Name, ex.steps, len(ex.trace), ex.stackString())
			}
		}()
	}
	func() {
		defer func() {
			if rec := recover(); rec != nil {
				switch x := rec.(type) {
				case pathEnd:
					endKind, endMsg = x.kind, x.msg
				case *goPanic:
					endKind, endMsg = "panic", x.msg+" @ "+x.stack
					ex.reportPanic(r, h, x)
				case engineError:
					endKind, endMsg = "engine-error", x.msg
				case abortSignal:
					endKind = "abort"
				default:
					// host-level bug in the engine: report as unsupported with the message
					endKind, endMsg = "engine-bug", fmt.Sprint(rec)+"\n"+hostStack()
				}
			}
		}()
		ex.eagerInits()
		ex.callFunction(h.Fn, nil, nil)
	}()
	close(watchdogDone)
	ex.cleanupGoroutines()

	h.mu.Lock()
	defer h.mu.Unlock()
	h.Queries += ex.solver.Queries - q0
	h.SolverTime += ex.solver.Time - t0
	h.EndKinds[endKind]++
	switch endKind {
	case "done", "infeasible", "panic", "stop":
	default:
		h.Inconcl[endKind+": "+endMsg]++
	}
	for f := range ex.funcsSeen {
		h.Funcs[f.String()] = true
	}
	for s := range ex.stubsUsed {
		h.Stubs[s] = true
	}
	for n := range ex.notes {
		h.Notes[n] = true
	}
	if len(h.Samples) < 6 && endKind == "done" {
		h.Samples = append(h.Samples, ex.describePath())
	}
}

func hostStack() string {
	buf := make([]byte, 6000)
	n := runtimeStack(buf)
	return string(buf[:n])
}

func (ex *Exec) describePath() string {
	var sb strings.Builder
	fmt.Fprintf(&sb, "path decisions=%d pc=%d steps=%d;", len(ex.trace), len(ex.pc), ex.steps)
	n := 0
	for i := len(ex.pc) - 1; i >= 0 && n < 3; i-- {
		s := ex.pc[i].String()
		if len(s) > 160 {
			s = s[:160] + "…"
		}
		sb.WriteString(" " + s)
		n++
	}
	return sb.String()
}

func (ex *Exec) addPC(c *Term) {
	if c.IsTrue() {
		return
	}
	ex.pc = append(ex.pc, c)
	// keep the invariant "ex.model satisfies ex.pc"
	if ex.model != nil {
		if v, ok := ex.evalModel(c); !ok || v == 0 {
			ex.model = nil
		}
	}
}

// allVars: inputs plus auxiliary variables (uninterpreted digests, abstract decoder results).
func (ex *Exec) allVars() []*Term {
	if len(ex.auxVars) == 0 {
		return ex.inputs
	}
	return append(append([]*Term(nil), ex.inputs...), ex.auxVars...)
}

func (ex *Exec) newAux(name string, w uint16) *Term {
	v := ex.tt.Var(name, w)
	ex.auxVars = append(ex.auxVars, v)
	return v
}

// evalModel evaluates c under the cached model, if there is one and c has no UF applications.
func (ex *Exec) evalModel(c *Term) (uint64, bool) {
	if ex.model == nil || c.hasUF {
		return 0, false
	}
	return ex.tt.Eval(c, ex.model, map[int32]uint64{})
}

type cacheEntry struct {
	res   SatResult
	model *Model // partial model over the variables of the slice (nil if not requested yet)
}

func (ex *Exec) check(extra *Term, wantModel bool) (SatResult, *Model) {
	if extra == nil || (wantModel && ex.model == nil) {
		conds := ex.pc
		if extra != nil {
			conds = append(append([]*Term(nil), ex.pc...), extra)
		}
		return ex.solver.Check(conds, wantModel, ex.allVars(), nil)
	}
	if extra.IsFalse() {
		return Unsat, nil
	}
	// constraint independence: the path condition is satisfiable, so only the conjuncts that
	// (transitively) share variables with the query can affect the answer; for the other
	// variables the cached model of the path condition stays valid.
	tt := ex.tt
	rel := tt.varSet(extra)
	used := make([]bool, len(ex.pc))
	var sel []*Term
	for changed := true; changed; {
		changed = false
		for i, c := range ex.pc {
			if used[i] {
				continue
			}
			vs := tt.varSet(c)
			if len(vs) == 0 || setsIntersect(vs, rel) {
				used[i] = true
				sel = append(sel, c)
				rel = mergeSets(rel, vs)
				changed = true
			}
		}
	}
	sel = append(sel, extra)
	ids := make([]int, len(sel))
	for i, c := range sel {
		ids[i] = int(c.id)
	}
	sort.Ints(ids)
	kb := make([]byte, 0, len(ids)*6)
	last := -1
	for _, id := range ids {
		if id != last {
			kb = strconv.AppendInt(kb, int64(id), 36)
			kb = append(kb, ',')
			last = id
		}
	}
	key := string(kb)
	ce, hit := ex.qcache[key]
	if hit && (!wantModel || ce.res != Sat || ce.model != nil) {
		ex.cacheHits++
	} else {
		var vars []*Term
		if wantModel {
			for _, id := range rel {
				if id >= 0 {
					vars = append(vars, tt.all[id])
				}
			}
		}
		r, m := ex.solver.Check(sel, wantModel, vars, nil)
		ce = cacheEntry{res: r, model: m}
		if r != Unknown {
			if ex.qcache == nil || len(ex.qcache) > 1000000 {
				ex.qcache = map[string]cacheEntry{}
			}
			ex.qcache[key] = ce
		}
	}
	if !wantModel || ce.res != Sat {
		return ce.res, nil
	}
	merged := &Model{vals: make(map[string]uint64, len(ex.model.vals)+8)}
	for k, v := range ex.model.vals {
		merged.vals[k] = v
	}
	if ce.model != nil {
		for k, v := range ce.model.vals {
			merged.vals[k] = v
		}
	}
	return Sat, merged
}

// ensureModel makes ex.model a model of the current path condition (or ends the path if infeasible).
func (ex *Exec) ensureModel() bool {
	if ex.model != nil {
		return true
	}
	r, m := ex.check(nil, true)
	switch r {
	case Unsat:
		panic(pathEnd{kind: "infeasible"})
	case Sat:
		if m == nil {
			m = &Model{vals: map[string]uint64{}}
		}
		ex.model = m
		return true
	}
	ex.unknownBranches++
	return false
}

func (ex *Exec) pushAlt(d decision) {
	alt := make([]decision, len(ex.trace)+1)
	copy(alt, ex.trace)
	alt[len(ex.trace)] = d
	ex.pending = append(ex.pending, alt)
}

// Decide returns the truth value of c on this path, forking when both are feasible.
func (ex *Exec) Decide(c *Term) bool {
	if c.IsTrue() {
		return true
	}
	if c.IsFalse() {
		return false
	}
	tt := ex.tt
	if len(ex.trace) < len(ex.prefix) {
		d := ex.prefix[len(ex.trace)]
		ex.trace = append(ex.trace, d)
		if d.taken {
			ex.addPC(c)
		} else {
			ex.addPC(tt.BNot(c))
		}
		ex.model = nil
		if len(ex.trace) == len(ex.prefix) && d.model != nil && !ex.pcHasUF() {
			ex.model = d.model
		}
		ex.trace[len(ex.trace)-1].model = nil
		return d.taken
	}
	if ex.curG != nil && ex.curG.frame != nil {
		ex.branchSites++
	}
	if v, ok := ex.evalModel(c); ok || (ex.ensureModel() && func() bool { v, ok = ex.evalModel(c); return ok }()) {
		side := v != 0
		var other *Term
		if side {
			other = tt.BNot(c)
		} else {
			other = c
		}
		r, om := ex.check(other, true)
		if r != Unsat {
			if r == Unknown {
				ex.unknownBranches++
			}
			ex.pushAlt(decision{taken: !side, model: om})
		}
		ex.trace = append(ex.trace, decision{taken: side})
		if side {
			ex.addPC(c)
		} else {
			ex.addPC(tt.BNot(c))
		}
		return side
	}
	// no usable model: two queries
	rt, mt := ex.check(c, true)
	rf, _ := ex.check(tt.BNot(c), false)
	if rt == Unsat && rf == Unsat {
		panic(pathEnd{kind: "infeasible"})
	}
	if rt == Unknown || rf == Unknown {
		ex.unknownBranches++
	}
	if rt != Unsat {
		if rf != Unsat {
			ex.pushAlt(decision{taken: false})
		}
		ex.trace = append(ex.trace, decision{taken: true})
		ex.addPC(c)
		if !c.hasUF {
			ex.model = mt
		} else {
			ex.model = nil
		}
		return true
	}
	ex.trace = append(ex.trace, decision{taken: false})
	ex.addPC(tt.BNot(c))
	ex.model = nil
	return false
}

// Choose makes an n-way nondeterministic choice (all arms explored).
func (ex *Exec) Choose(n int, tag string) int {
	if n <= 1 {
		return 0
	}
	if len(ex.trace) < len(ex.prefix) {
		d := ex.prefix[len(ex.trace)]
		ex.trace = append(ex.trace, d)
		return int(d.val)
	}
	for k := n - 1; k >= 1; k-- {
		ex.pushAlt(decision{kind: 1, val: uint64(k)})
	}
	ex.trace = append(ex.trace, decision{kind: 1, val: 0})
	return 0
}

// Concretize picks a concrete value for t, forking over all feasible values (bounded): the feasible
// values are enumerated with blocking clauses, one alternative path is queued per value.
func (ex *Exec) Concretize(t *Term, what string) uint64 {
	if t.IsConst() {
		return t.val
	}
	tt := ex.tt
	if len(ex.trace) < len(ex.prefix) {
		d := ex.prefix[len(ex.trace)]
		ex.trace = append(ex.trace, d)
		ex.addPC(tt.Eq(t, tt.BV(d.val, t.w)))
		ex.model = nil
		if len(ex.trace) == len(ex.prefix) && d.model != nil && !ex.pcHasUF() {
			ex.model = d.model
		}
		ex.trace[len(ex.trace)-1].model = nil
		return d.val
	}
	type cand struct {
		v uint64
		m *Model
	}
	var cands []cand
	blocked := tt.True
	for {
		var v uint64
		var m *Model
		got := false
		if !t.hasUF && ex.ensureModel() {
			if len(cands) == 0 {
				if x, ok := ex.evalModel(t); ok {
					v, m, got = x, ex.model, true
				}
			}
			if !got {
				r, mm := ex.check(blocked, true)
				if r == Unsat {
					break
				}
				if r == Sat && mm != nil {
					if x, ok := tt.Eval(t, mm, map[int32]uint64{}); ok {
						v, m, got = x, mm, true
					}
				}
			}
		}
		if !got {
			conds := append(append([]*Term(nil), ex.pc...), blocked)
			r, mm := ex.solver.Check(conds, true, ex.allVars(), []*Term{t})
			if r == Unsat {
				break
			}
			if r != Sat || mm == nil {
				panic(pathEnd{kind: "solver-unknown", msg: "cannot enumerate values of " + what})
			}
			v = mm.vals[fmt.Sprintf("#t%d", t.id)]
			m = nil
		}
		cands = append(cands, cand{v, m})
		if len(cands) > ex.cfg.maxConcretize {
			panic(pathEnd{kind: "bound", msg: fmt.Sprintf("more than %d feasible values for %s", ex.cfg.maxConcretize, what)})
		}
		if len(cands) == 8 && !t.hasUF {
			// many values: if they fit a small interval, take the whole interval (a value that is
			// in fact infeasible only produces a path that ends at its first feasibility check)
			if lo, hi, ok := ex.valueRange(t); ok && hi-lo < uint64(ex.cfg.maxConcretize) {
				cands = cands[:0]
				for x := lo; ; x++ {
					cands = append(cands, cand{x, nil})
					if x == hi {
						break
					}
				}
				break
			}
		}
		blocked = tt.BAnd(blocked, tt.BNot(tt.Eq(t, tt.BV(v, t.w))))
	}
	if len(cands) == 0 {
		panic(pathEnd{kind: "infeasible"})
	}
	for k := len(cands) - 1; k >= 1; k-- {
		ex.pushAlt(decision{kind: 2, val: cands[k].v, model: cands[k].m})
	}
	ex.trace = append(ex.trace, decision{kind: 2, val: cands[0].v})
	ex.addPC(tt.Eq(t, tt.BV(cands[0].v, t.w)))
	ex.model = cands[0].m
	if t.hasUF {
		ex.model = nil
	}
	if ex.model == nil {
		// the first candidate of an interval may be infeasible
		if r, _ := ex.check(nil, false); r == Unsat {
			panic(pathEnd{kind: "infeasible"})
		}
	}
	return cands[0].v
}

// valueRange finds the unsigned minimum and maximum of t under the path condition by bisection.
func (ex *Exec) valueRange(t *Term) (lo, hi uint64, ok bool) {
	tt := ex.tt
	feasible := func(c *Term) (bool, bool) {
		r, _ := ex.check(c, false)
		if r == Unknown {
			return false, false
		}
		return r == Sat, true
	}
	// maximum: largest m such that t >= m is feasible
	l, h := uint64(0), mask(t.w)
	for l < h {
		mid := l + (h-l)/2 + (h-l)%2
		f, k := feasible(tt.Ule(tt.BV(mid, t.w), t))
		if !k {
			return 0, 0, false
		}
		if f {
			l = mid
		} else {
			h = mid - 1
		}
	}
	hi = l
	l, h = 0, hi
	for l < h {
		mid := l + (h-l)/2
		f, k := feasible(tt.Ule(t, tt.BV(mid, t.w)))
		if !k {
			return 0, 0, false
		}
		if f {
			h = mid
		} else {
			l = mid + 1
		}
	}
	lo = l
	return lo, hi, true
}

// ---------------------------------------------------------------- assertions

func (ex *Exec) modelInputs(m *Model) (map[string]uint64, []string) {
	in := map[string]uint64{}
	var order []string
	for _, v := range ex.inputs {
		val := uint64(0)
		if m != nil {
			val = m.vals[v.name]
		}
		in[v.name] = val
		order = append(order, v.name)
	}
	return in, order
}

func (ex *Exec) knownRegionTerms(r *Runner) (listed []regionDecl) {
	for _, rg := range ex.regions {
		if r.known[rg.slug] {
			listed = append(listed, rg)
		}
	}
	return
}

func (ex *Exec) assertCheck(r *Runner, h *Harness, tag string, cond *Term) {
	ex.assertCheckP(r, h, tag, cond, nil)
}

// assertCheckP: like assertCheck; when prefer is given, a counterexample that also satisfies prefer
// is looked for first (used to obtain replayable allocation sizes).
func (ex *Exec) assertCheckP(r *Runner, h *Harness, tag string, cond *Term, prefer *Term) {
	tt := ex.tt
	h.mu.Lock()
	h.Obligations++
	h.mu.Unlock()
	if cond.IsTrue() {
		h.mu.Lock()
		h.Discharged++
		h.mu.Unlock()
		return
	}
	neg := tt.BNot(cond)
	// first: a counterexample outside every listed known-finding region?
	outside := neg
	listed := ex.knownRegionTerms(r)
	for _, rg := range listed {
		outside = tt.BAnd(outside, tt.BNot(rg.cond))
	}
	res, m := ex.check(outside, true)
	if res == Sat && prefer != nil {
		if r2, m2 := ex.check(tt.BAnd(outside, prefer), true); r2 == Sat {
			m = m2
		}
	}
	switch res {
	case Unsat:
		if len(listed) == 0 {
			h.mu.Lock()
			h.Discharged++
			h.mu.Unlock()
		} else {
			found := false
			for _, rg := range listed {
				r2, m2 := ex.check(tt.BAnd(neg, rg.cond), true)
				if r2 == Sat && prefer != nil {
					if r3, m3 := ex.check(tt.BAnd(tt.BAnd(neg, rg.cond), prefer), true); r3 == Sat {
						m2 = m3
					}
				}
				if r2 == Sat {
					found = true
					m2 = ex.realize(tt.BAnd(neg, rg.cond), m2)
					in, order := ex.modelInputs(m2)
					v := &Violation{Harness: h.Name, Tag: tag, Kind: "assert", Inputs: in, Order: order, Region: rg.slug, Stress: ex.stressRounds()}
					h.mu.Lock()
					h.Known = append(h.Known, v)
					h.mu.Unlock()
				} else if r2 == Unknown {
					h.mu.Lock()
					h.Inconcl["solver unknown on assertion "+tag+" (region "+rg.slug+")"]++
					h.mu.Unlock()
				}
			}
			if !found {
				h.mu.Lock()
				h.Discharged++
				h.mu.Unlock()
			}
		}
	case Sat:
		m = ex.realize(outside, m)
		in, order := ex.modelInputs(m)
		v := &Violation{Harness: h.Name, Tag: tag, Kind: "assert", Inputs: in, Order: order, Stack: ex.stackString(), Stress: ex.stressRounds(), Abstract: ex.abstracted}
		h.mu.Lock()
		nAbs, nReal := 0, 0
		for _, o := range h.Violations {
			if o.Abstract {
				nAbs++
			} else {
				nReal++
			}
		}
		if !v.Abstract || nAbs < 4 {
			h.Violations = append(h.Violations, v)
		}
		if !v.Abstract && nReal+1 >= 8 {
			h.stop = true
		}
		h.mu.Unlock()
	default:
		h.mu.Lock()
		h.Unknown++
		h.Inconcl["solver unknown on assertion "+tag]++
		h.mu.Unlock()
	}
	// continue under the assumption that the assertion holds
	if cond.IsFalse() {
		panic(pathEnd{kind: "stop"})
	}
	ex.assume(cond)
}

func (ex *Exec) assume(c *Term) {
	if c.IsTrue() {
		return
	}
	if c.IsFalse() {
		panic(pathEnd{kind: "infeasible"})
	}
	if len(ex.trace) < len(ex.prefix) {
		// still replaying: feasibility was established by the original run
		ex.addPC(c)
		ex.model = nil
		return
	}
	if v, ok := ex.evalModel(c); ok && v != 0 {
		ex.addPC(c)
		return
	}
	r, m := ex.check(c, true)
	if r == Unsat {
		panic(pathEnd{kind: "infeasible"})
	}
	ex.addPC(c)
	if r == Sat && !c.hasUF {
		ex.model = m
	} else {
		ex.model = nil
	}
}

func (ex *Exec) reportPanic(r *Runner, h *Harness, p *goPanic) {
	// an uncaught Go panic reached the top of the harness on a feasible path
	tt := ex.tt
	outside := tt.True
	listed := ex.knownRegionTerms(r)
	for _, rg := range listed {
		outside = tt.BAnd(outside, tt.BNot(rg.cond))
	}
	res, m := ex.check(outside, true)
	h.mu.Lock()
	h.Obligations++
	h.mu.Unlock()
	switch res {
	case Sat:
		in, order := ex.modelInputs(m)
		v := &Violation{Harness: h.Name, Tag: "no-panic", Kind: "panic", Msg: p.msg, Inputs: in, Order: order, Stack: p.stack}
		h.mu.Lock()
		h.Violations = append(h.Violations, v)
		if len(h.Violations) >= 8 {
			h.stop = true
		}
		h.mu.Unlock()
	case Unsat:
		for _, rg := range listed {
			r2, m2 := ex.check(rg.cond, true)
			if r2 == Sat {
				in, order := ex.modelInputs(m2)
				v := &Violation{Harness: h.Name, Tag: "no-panic", Kind: "panic", Msg: p.msg, Inputs: in, Order: order, Region: rg.slug, Stack: p.stack}
				h.mu.Lock()
				h.Known = append(h.Known, v)
				h.mu.Unlock()
			}
		}
	default:
		h.mu.Lock()
		h.Inconcl["solver unknown on panic path: "+p.msg]++
		h.mu.Unlock()
	}
}

func (ex *Exec) coverCheck(h *Harness, tag string, cond *Term) {
	h.mu.Lock()
	h.CoverTags[tag] = true
	old, have := h.Covers[tag]
	h.mu.Unlock()
	if (have && (!old.Abstract || ex.abstracted)) || cond.IsFalse() {
		return
	}
	res, m := ex.check(cond, true)
	if res == Sat {
		m = ex.realize(cond, m)
		in, order := ex.modelInputs(m)
		h.mu.Lock()
		if old, have := h.Covers[tag]; !have || (old.Abstract && !ex.abstracted) {
			h.Covers[tag] = &CoverWitness{Tag: tag, Inputs: in, Order: order, Abstract: ex.abstracted}
		}
		h.mu.Unlock()
	}
}

func (ex *Exec) noteOnce(s string) { ex.notes[s] = true }

func sortedKeys(m map[string]bool) []string {
	var r []string
	for k := range m {
		r = append(r, k)
	}
	sort.Strings(r)
	return r
}

func (ex *Exec) pcHasUF() bool {
	for _, c := range ex.pc {
		if c.hasUF {
			return true
		}
	}
	return false
}

// realize tries to turn a model that relies on uninterpreted hash values into one in which every
// modelled hash application has its real value, so that the model can be replayed natively:
// pin each hashed input to its model value and the digest to the real hash of it, and re-solve.
func (ex *Exec) realize(cond *Term, m *Model) *Model {
	if len(ex.hashMemo) == 0 || m == nil {
		return m
	}
	tt := ex.tt
	cur := m
	for round := 0; round < 3; round++ {
		pins := tt.True
		allReal := true
		memo := map[int32]uint64{}
		for _, e := range ex.hashMemo {
			if _, conc := ex.concreteBytes(e.data); conc {
				continue
			}
			data := make([]byte, len(e.data))
			ok := true
			for i, t := range e.data {
				v, o := tt.Eval(t, cur, memo)
				if !o {
					ok = false
					break
				}
				data[i] = byte(v)
			}
			if !ok {
				return m
			}
			var sum []byte
			if e.code == 0x56 {
				a := sha256Sum(data)
				sum = sha256Sum(a)
			} else {
				h := registeredHashes[e.code].mk()
				h.Write(data)
				sum = h.Sum(nil)
			}
			for i, t := range e.data {
				pins = tt.BAnd(pins, tt.Eq(t, tt.BV(uint64(data[i]), 8)))
			}
			for i, t := range e.digest {
				pins = tt.BAnd(pins, tt.Eq(t, tt.BV(uint64(sum[i]), 8)))
				if v, o := tt.Eval(t, cur, memo); !o || byte(v) != sum[i] {
					allReal = false
				}
			}
		}
		if allReal {
			return cur
		}
		var q *Term
		if cond != nil {
			q = tt.BAnd(cond, pins)
		} else {
			q = pins
		}
		saved := ex.model
		ex.model = nil // force a full query so that every variable gets a value
		r, nm := ex.check(q, true)
		ex.model = saved
		if r != Sat || nm == nil {
			return m
		}
		cur = nm
	}
	return cur
}

// packages whose init functions register codecs in global registries: nothing reads their
// variables, so lazy initialisation would never run them.
var eagerInitPkgs = []string{
	"github.com/ipld/go-ipld-prime/codec/raw",
	"github.com/ipld/go-ipld-prime/codec/dagcbor",
	"github.com/ipld/go-ipld-prime/codec/dagjson",
	"github.com/ipld/go-ipld-prime/codec/cbor",
	"github.com/ipld/go-ipld-prime/codec/json",
	"github.com/ipld/go-codec-dagpb",
}

func (ex *Exec) eagerInits() {
	if ex.runner.eagerPkgs == nil {
		ex.runner.eagerOnce.Do(func() {
			l := []*ssa.Package{}
			for _, p := range eagerInitPkgs {
				if sp := ex.prog.ImportedPackage(p); sp != nil {
					l = append(l, sp)
				}
			}
			ex.runner.eagerPkgs = l
		})
	}
	for _, sp := range ex.runner.eagerPkgs {
		if !ex.inited[sp] {
			ex.runInit(sp)
		}
	}
}
