package main

// Models of the two opaque dependencies of go-car: hashing (go-multihash registry) and the DAG-CBOR
// header codec (go-ipld-cbor on CarHeader).

import (
	"crypto/md5"
	"crypto/sha1"
	"crypto/sha256"
	"crypto/sha512"
	"fmt"
	"go/token"
	"go/types"
	"hash"

	"golang.org/x/tools/go/ssa"
)

type hashEntry struct {
	code   uint64
	data   []*Term
	digest []*Term
}

type cborEntry struct{}

type hasherState struct {
	code uint64
	data []*Term
	size int
}

var hasherType = types.NewNamed(types.NewTypeName(token.NoPos, nil, "verifHasher", nil), types.NewStruct(nil, nil), nil)

var registeredHashes = map[uint64]struct {
	size int
	mk   func() hash.Hash
}{
	0xd5:   {16, md5.New},
	0x11:   {20, sha1.New},
	0x1013: {28, sha256.New224},
	0x12:   {32, sha256.New},
	0x20:   {48, sha512.New384},
	0x13:   {64, sha512.New},
	0x1014: {28, sha512.New512_224},
	0x1015: {32, sha512.New512_256},
	0x56:   {32, nil},
}

func (ex *Exec) pkgGlobalValue(pkgPath, name string) Value {
	pkg := ex.prog.ImportedPackage(pkgPath)
	if pkg == nil {
		ex.unsupported("package not loaded: " + pkgPath)
	}
	g, ok := pkg.Members[name].(*ssa.Global)
	if !ok {
		ex.unsupported("no global " + pkgPath + "." + name)
	}
	return ex.copyVal(ex.global(g).v)
}

func (ex *Exec) pkgFunc(pkgPath, name string) *ssa.Function {
	pkg := ex.prog.ImportedPackage(pkgPath)
	if pkg == nil {
		ex.unsupported("package not loaded: " + pkgPath)
	}
	f := pkg.Func(name)
	if f == nil {
		ex.unsupported("no function " + pkgPath + "." + name)
	}
	return f
}

const mhCore = "github.com/multiformats/go-multihash/core"

func registerHashCborModels() {
	noop := func(ex *Exec, fn *ssa.Function, a []Value) Value { return nil }
	intrinsics[mhCore+".Register"] = noop
	intrinsics[mhCore+".RegisterVariableSize"] = noop
	intrinsics[mhCore+".GetVariableHasher"] = func(ex *Exec, fn *ssa.Function, a []Value) Value {
		return ex.getHasher(a[0].(*Term), a[1].(*Term))
	}
	intrinsics[mhCore+".GetHasher"] = func(ex *Exec, fn *ssa.Function, a []Value) Value {
		return ex.getHasher(a[0].(*Term), ex.intTerm(-1))
	}
	nativeTypes[hasherType] = map[string]nativeFn{
		"Write": func(ex *Exec, a []Value) Value {
			h := a[0].(*OpaqueVal).x.(*hasherState)
			p := a[1].(*SliceVal)
			h.data = append(h.data, ex.sliceBytesOrNil(p)...)
			return TupleVal{ex.intTerm(p.len), nilErr()}
		},
		"Sum": func(ex *Exec, a []Value) Value {
			h := a[0].(*OpaqueVal).x.(*hasherState)
			d := ex.hashDigest(h.code, h.data, h.size)
			b := a[1].(*SliceVal)
			vals := make([]Value, len(d))
			for i, t := range d {
				vals[i] = t
			}
			if b.arr == nil && len(vals) == 0 {
				return ex.mkByteSlice(nil)
			}
			return ex.appendVals(b, vals, types.Typ[types.Uint8])
		},
		"Reset": func(ex *Exec, a []Value) Value {
			a[0].(*OpaqueVal).x.(*hasherState).data = nil
			return nil
		},
		"Size": func(ex *Exec, a []Value) Value {
			h := a[0].(*OpaqueVal).x.(*hasherState)
			if h.code == 0 {
				return ex.intTerm(len(h.data))
			}
			return ex.intTerm(h.size)
		},
		"BlockSize": func(ex *Exec, a []Value) Value { return ex.intTerm(64) },
	}

	for _, p := range []string{"github.com/ipfs/go-ipld-cbor"} {
		intrinsics[p+".RegisterCborType"] = noop
		intrinsics[p+".DumpObject"] = func(ex *Exec, fn *ssa.Function, a []Value) Value { return ex.cborDump(a[0]) }
		intrinsics[p+".DecodeInto"] = func(ex *Exec, fn *ssa.Function, a []Value) Value {
			return ex.cborDecodeInto(a[0].(*SliceVal), a[1])
		}
	}
}

func (ex *Exec) getHasher(code, hint *Term) Value {
	tt := ex.tt
	errSumNotSupported := func() Value {
		inner := ex.pkgGlobalValue(mhCore, "ErrSumNotSupported").(*IfaceVal)
		return TupleVal{&IfaceVal{}, ex.newOpaqueError("unknown multihash code: %w", []*IfaceVal{inner})}
	}
	var c uint64
	if code.IsConst() {
		c = code.val
	} else if ex.Decide(tt.Eq(code, tt.BV(0, 64))) {
		c = 0
	} else if ex.Decide(tt.Eq(code, tt.BV(0x12, 64))) {
		c = 0x12
	} else {
		// every other registered code is outside the claim (stated bound)
		for k := range registeredHashes {
			if k != 0x12 {
				ex.assume(tt.BNot(tt.Eq(code, tt.BV(k, 64))))
			}
		}
		ex.noteOnce("hash codes other than identity and sha2-256 are treated as unregistered when the code is symbolic")
		return errSumNotSupported()
	}
	if c == 0 {
		return TupleVal{&IfaceVal{t: hasherType, v: &OpaqueVal{kind: "hasher", x: &hasherState{code: 0}}}, nilErr()}
	}
	reg, ok := registeredHashes[c]
	if !ok {
		return errSumNotSupported()
	}
	// size hint larger than the digest -> ErrLenTooLarge
	big := tt.Slt(ex.intTerm(reg.size), hint)
	if ex.Decide(big) {
		return TupleVal{&IfaceVal{}, ex.pkgGlobalValue(mhCore, "ErrLenTooLarge")}
	}
	return TupleVal{&IfaceVal{t: hasherType, v: &OpaqueVal{kind: "hasher", x: &hasherState{code: c, size: reg.size}}}, nilErr()}
}

func (ex *Exec) hashDigest(code uint64, data []*Term, size int) []*Term {
	tt := ex.tt
	if code == 0 {
		return append([]*Term(nil), data...)
	}
	if bs, ok := ex.concreteBytes(data); ok {
		var sum []byte
		if code == 0x56 {
			a := sha256.Sum256(bs)
			b := sha256.Sum256(a[:])
			sum = b[:]
		} else {
			h := registeredHashes[code].mk()
			h.Write(bs)
			sum = h.Sum(nil)
		}
		r := make([]*Term, len(sum))
		for i, b := range sum {
			r[i] = tt.BV(uint64(b), 8)
		}
		if ex.hashInjective {
			// relate the real digest to the uninterpreted ones of this run
			known := false
			for _, e := range ex.hashMemo {
				if e.code != code {
					continue
				}
				if _, conc := ex.concreteBytes(e.data); conc {
					if len(e.data) == len(data) && ex.bytesEq(e.data, data).IsTrue() {
						known = true
					}
					continue
				}
				if len(e.data) == len(data) {
					same := ex.bytesEq(e.data, data)
					ex.addPC(tt.Implies(same, ex.bytesEq(e.digest, r)))
					ex.addPC(tt.Implies(ex.bytesEq(e.digest, r), same))
				} else {
					ex.addPC(tt.BNot(ex.bytesEq(e.digest, r)))
				}
			}
			if !known {
				ex.hashMemo = append(ex.hashMemo, hashEntry{code: code, data: data, digest: r})
			}
		}
		return r
	}
	// symbolic data: uninterpreted digest, functionally consistent with earlier calls
	for _, e := range ex.hashMemo {
		if e.code == code && len(e.data) == len(data) {
			same := true
			for i := range data {
				if data[i] != e.data[i] {
					same = false
					break
				}
			}
			if same {
				return e.digest
			}
		}
	}
	k := len(ex.hashMemo)
	d := make([]*Term, size)
	for i := range d {
		d[i] = ex.newAux(fmt.Sprintf("H%x#%d[%d]", code, k, i), 8)
	}
	for _, e := range ex.hashMemo {
		if e.code != code {
			continue
		}
		if len(e.data) == len(data) {
			same := ex.bytesEq(e.data, data)
			ex.addPC(tt.Implies(same, ex.bytesEq(e.digest, d)))
			if ex.hashInjective {
				ex.addPC(tt.Implies(ex.bytesEq(e.digest, d), same))
			}
		} else if ex.hashInjective {
			ex.addPC(tt.BNot(ex.bytesEq(e.digest, d)))
		}
	}
	if ex.hashInjective {
		ex.noteOnce("assumption requested by the harness: the hash function is collision free on the inputs hashed in this run")
	}
	ex.hashMemo = append(ex.hashMemo, hashEntry{code: code, data: data, digest: d})
	ex.noteOnce("non-identity hash of symbolic data is an uninterpreted function (functional consistency only)")
	return d
}

// ---------------------------------------------------------------- DAG-CBOR CarHeader codec

func cborUint(tt *TermTable, major byte, v uint64) []*Term {
	var bs []byte
	switch {
	case v < 24:
		bs = []byte{major<<5 | byte(v)}
	case v < 1<<8:
		bs = []byte{major<<5 | 24, byte(v)}
	case v < 1<<16:
		bs = []byte{major<<5 | 25, byte(v >> 8), byte(v)}
	case v < 1<<32:
		bs = []byte{major<<5 | 26, byte(v >> 24), byte(v >> 16), byte(v >> 8), byte(v)}
	default:
		bs = []byte{major<<5 | 27, byte(v >> 56), byte(v >> 48), byte(v >> 40), byte(v >> 32), byte(v >> 24), byte(v >> 16), byte(v >> 8), byte(v)}
	}
	r := make([]*Term, len(bs))
	for i, b := range bs {
		r[i] = tt.BV(uint64(b), 8)
	}
	return r
}

func (ex *Exec) constBytes(bs []byte) []*Term {
	r := make([]*Term, len(bs))
	for i, b := range bs {
		r[i] = ex.tt.BV(uint64(b), 8)
	}
	return r
}

// headerStruct returns the CarHeader struct behind v (*CarHeader or CarHeader in an interface).
func (ex *Exec) headerStruct(v Value) *StructVal {
	iv, ok := v.(*IfaceVal)
	if !ok || iv.t == nil {
		ex.unsupported("cbor model: nil object")
	}
	var sv *StructVal
	switch x := iv.v.(type) {
	case *PtrVal:
		if x.isNil() || x.cell == nil {
			ex.unsupported("cbor model: nil header pointer")
		}
		sv, _ = x.cell.v.(*StructVal)
	case *StructVal:
		sv = x
	}
	t := iv.t
	if p, ok := t.(*types.Pointer); ok {
		t = p.Elem()
	}
	st, ok := t.Underlying().(*types.Struct)
	if sv == nil || !ok || st.NumFields() != 2 || st.Field(0).Name() != "Roots" || st.Field(1).Name() != "Version" {
		ex.unsupported("cbor model: object is not a CarHeader: " + iv.t.String())
	}
	return sv
}

func (ex *Exec) cborDump(v Value) Value {
	tt := ex.tt
	sv := ex.headerStruct(v)
	roots := sv.f[0].v.(*SliceVal)
	ver := sv.f[1].v.(*Term)
	out := ex.constBytes([]byte{0xa2, 0x65, 'r', 'o', 'o', 't', 's'})
	if roots.arr == nil {
		out = append(out, tt.BV(0xf6, 8))
	} else {
		out = append(out, cborUint(tt, 4, uint64(roots.len))...)
		for i := 0; i < roots.len; i++ {
			c := roots.arr.e[roots.off+i].(*StructVal).f[0].v.(*StrVal)
			out = append(out, tt.BV(0xd8, 8), tt.BV(0x2a, 8))
			out = append(out, cborUint(tt, 2, uint64(len(c.b)+1))...)
			out = append(out, tt.BV(0, 8))
			out = append(out, c.b...)
		}
	}
	out = append(out, ex.constBytes([]byte{0x67, 'v', 'e', 'r', 's', 'i', 'o', 'n'})...)
	var vv uint64
	if ver.IsConst() {
		vv = ver.val
	} else {
		// encoding width depends on the value: split on the width classes
		switch {
		case ex.Decide(tt.Ult(ver, tt.BV(24, 64))):
			out = append(out, tt.Extract(ver, 7, 0))
			return TupleVal{ex.mkByteSlice(out), nilErr()}
		case ex.Decide(tt.Ult(ver, tt.BV(1<<8, 64))):
			out = append(out, tt.BV(0x18, 8), tt.Extract(ver, 7, 0))
		case ex.Decide(tt.Ult(ver, tt.BV(1<<16, 64))):
			out = append(out, tt.BV(0x19, 8), tt.Extract(ver, 15, 8), tt.Extract(ver, 7, 0))
		case ex.Decide(tt.Ult(ver, tt.BV(1<<32, 64))):
			out = append(out, tt.BV(0x1a, 8))
			for s := 24; s >= 0; s -= 8 {
				out = append(out, tt.Extract(ver, uint16(s+7), uint16(s)))
			}
		default:
			out = append(out, tt.BV(0x1b, 8))
			for s := 56; s >= 0; s -= 8 {
				out = append(out, tt.Extract(ver, uint16(s+7), uint16(s)))
			}
		}
		return TupleVal{ex.mkByteSlice(out), nilErr()}
	}
	out = append(out, cborUint(tt, 0, vv)...)
	return TupleVal{ex.mkByteSlice(out), nilErr()}
}

type cborReader struct {
	b   []*Term
	pos int
	bad bool
	sym bool // a structural byte was symbolic: outside the structural model
}

func (r *cborReader) byteAt(i int) byte {
	if !r.b[i].IsConst() {
		r.sym = true
		return 0
	}
	return byte(r.b[i].val)
}

func (r *cborReader) head() (major byte, arg uint64, indef bool) {
	if r.pos >= len(r.b) {
		r.bad = true
		return
	}
	ib := r.byteAt(r.pos)
	r.pos++
	major = ib >> 5
	ai := ib & 0x1f
	switch {
	case ai < 24:
		arg = uint64(ai)
	case ai == 24, ai == 25, ai == 26, ai == 27:
		n := 1 << (ai - 24)
		if r.pos+n > len(r.b) {
			r.bad = true
			return
		}
		for i := 0; i < n; i++ {
			arg = arg<<8 | uint64(r.byteAt(r.pos+i))
		}
		r.pos += n
	case ai == 31:
		indef = true
	default:
		r.bad = true
	}
	return
}

// cborDecodeConcrete decodes a concrete header; ok=false means "outside the modelled subset".
func cborDecodeConcrete(b []*Term) (roots [][]*Term, rootsNil bool, version uint64, errMsg string, ok bool) {
	r := &cborReader{b: b}
	defer func() {
		if r.sym {
			ok = false
		}
	}()
	rootsNil = true
	mj, n, indef := r.head()
	if r.bad || mj != 5 {
		if !r.bad && mj != 5 {
			return nil, true, 0, "not a map", true
		}
		return nil, true, 0, "truncated", true
	}
	for i := uint64(0); indef || i < n; i++ {
		if indef && r.pos < len(r.b) && r.byteAt(r.pos) == 0xff {
			r.pos++
			break
		}
		kmj, klen, kindef := r.head()
		if r.bad {
			return nil, true, 0, "truncated key", true
		}
		if kmj != 3 || kindef {
			return nil, true, 0, "", false
		}
		if r.pos+int(klen) > len(r.b) || klen > 64 {
			return nil, true, 0, "truncated key", true
		}
		kb := make([]byte, klen)
		for i := range kb {
			kb[i] = r.byteAt(r.pos + i)
		}
		key := string(kb)
		r.pos += int(klen)
		if r.sym {
			return nil, true, 0, "", false
		}
		switch key {
		case "version":
			vmj, v, vindef := r.head()
			if r.bad {
				return nil, true, 0, "truncated version", true
			}
			if vmj != 0 || vindef {
				if vmj == 1 || (vmj == 7) || vmj == 3 || vmj == 2 {
					return nil, true, 0, "cannot assign to uint64 field", true
				}
				return nil, true, 0, "", false
			}
			version = v
		case "roots":
			if r.pos < len(r.b) && r.byteAt(r.pos) == 0xf6 {
				r.pos++
				roots, rootsNil = nil, true
				continue
			}
			amj, alen, aindef := r.head()
			if r.bad {
				return nil, true, 0, "truncated roots", true
			}
			if amj != 4 {
				return nil, true, 0, "roots is not an array", true
			}
			roots, rootsNil = [][]*Term{}, false
			for j := uint64(0); aindef || j < alen; j++ {
				if aindef && r.pos < len(r.b) && r.byteAt(r.pos) == 0xff {
					r.pos++
					break
				}
				tmj, tag, _ := r.head()
				if r.bad {
					return nil, true, 0, "truncated root", true
				}
				if tmj != 6 || tag != 42 {
					return nil, true, 0, "", false
				}
				bmj, blen, bindef := r.head()
				if r.bad {
					return nil, true, 0, "truncated root", true
				}
				if bmj != 2 || bindef {
					return nil, true, 0, "link value should have been bytes", true
				}
				if r.pos+int(blen) > len(r.b) {
					return nil, true, 0, "truncated root bytes", true
				}
				lb := r.b[r.pos : r.pos+int(blen)]
				r.pos += int(blen)
				if len(lb) == 0 {
					return nil, true, 0, "invalid multibase on IPLD link", true
				}
				if !lb[0].IsConst() {
					return nil, true, 0, "", false
				}
				if lb[0].val != 0 {
					return nil, true, 0, "invalid multibase on IPLD link", true
				}
				roots = append(roots, lb[1:])
			}
		default:
			return nil, true, 0, "no such field", true
		}
	}
	return roots, rootsNil, version, "", true
}

func (ex *Exec) cborDecodeInto(b *SliceVal, target Value) Value {
	tt := ex.tt
	sv := ex.headerStruct(target)
	iv := target.(*IfaceVal)
	st := iv.t.(*types.Pointer).Elem().Underlying().(*types.Struct)
	rootsT := st.Field(0).Type().Underlying().(*types.Slice)
	cidT := rootsT.Elem()
	mkCid := func(bs []*Term) Value {
		return &StructVal{f: []*Cell{ex.newCell(&StrVal{b: bs})}}
	}
	setRoots := func(cids []Value, isNil bool) {
		if isNil {
			sv.f[0].v = &SliceVal{}
			return
		}
		a := &ArrObj{e: cids, et: cidT, id: ex.nextID()}
		sv.f[0].v = &SliceVal{arr: a, len: len(cids), cap: len(cids)}
	}
	bs := ex.sliceBytesOrNil(b)
	_, allConcrete := ex.concreteBytes(bs)
	roots, rootsNil, version, errMsg, modelled := cborDecodeConcrete(bs)
	if allConcrete && !modelled {
		cb, _ := ex.concreteBytes(bs)
		ex.unsupported(fmt.Sprintf("cbor model: concrete header outside the modelled DAG-CBOR subset: %x", cb))
	}
	if modelled {
		if errMsg != "" {
			return ex.newOpaqueError("cbor: "+errMsg, nil)
		}
		var cids []Value
		castFn := ex.pkgFunc("github.com/ipfs/go-cid", "Cast")
		for _, rb := range roots {
			res := ex.callFunction(castFn, []Value{ex.mkByteSlice(append([]*Term(nil), rb...))}, nil).(TupleVal)
			if e := res[1].(*IfaceVal); e.t != nil {
				return ex.newOpaqueError("cbor: bad cid in roots", nil)
			}
			cids = append(cids, res[0])
		}
		if !rootsNil && cids == nil {
			cids = []Value{}
		}
		setRoots(cids, rootsNil)
		sv.f[1].v = tt.BV(version, 64)
		return nilErr()
	}
	// symbolic header bytes: the decoder is not encoded. Over-approximate its result:
	// either an error, or an arbitrary header (version arbitrary; roots: none or one arbitrary CID).
	ex.noteOnce("DAG-CBOR decode of symbolic header bytes is abstracted: error | arbitrary {version, 0..1 roots}")
	ex.abstracted = true
	switch ex.Choose(3, "cbor-decode") {
	case 0:
		return ex.newOpaqueError("cbor: decode error (abstract)", nil)
	case 1:
		setRoots(nil, true)
		sv.f[1].v = ex.newAux(ex.inputName("cbor.version"), 64)
		return nilErr()
	default:
		n := 4
		cb := make([]*Term, n)
		name := ex.inputName("cbor.root")
		for i := range cb {
			cb[i] = ex.newAux(fmt.Sprintf("%s[%d]", name, i), 8)
		}
		setRoots([]Value{mkCid(cb)}, false)
		sv.f[1].v = ex.newAux(ex.inputName("cbor.version"), 64)
		return nilErr()
	}
}

func sha256Sum(b []byte) []byte {
	a := sha256.Sum256(b)
	return a[:]
}
