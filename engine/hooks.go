package main

// Observation hooks: allocation bounds (C09), and shared-memory/lock events (C08).

import (
	"go/types"
)

type allocRec struct {
	size *Term
	site string
}

type eventLog struct{}

func (ex *Exec) noteAccess(c *Cell, a *ArrObj, idx int, write bool) {
	if ex.evOn {
		ex.evAccess(c, a, idx, write)
	}
}
func (ex *Exec) noteMapAccess(m *MapVal, write bool) {
	if ex.evOn {
		ex.evMap(m, write)
	}
}
func (ex *Exec) noteLock(mu Value, op string) {
	if ex.evOn {
		ex.evLock(mu, op)
	}
}
func (ex *Exec) noteSpawn(g *gor) {
	if ex.evOn {
		ex.evSpawn(g)
	}
}
func (ex *Exec) noteExit(g *gor) {}
func (ex *Exec) noteChan(ch *ChanVal, op string) {
	if ex.evOn {
		ex.evChan(ch, op)
	}
}

// recordAlloc is called for every make([]T, n): when allocation checking is on (C09) and the
// allocating function belongs to go-car, the obligation  n*elemsize <= limit + slack  is checked.
func (ex *Exec) recordAlloc(n *Term, et types.Type) {
	if !ex.allocCheckOn || n.IsConst() {
		return
	}
	fr := ex.curFrame()
	if fr == nil || fr.fn.Pkg == nil {
		return
	}
	// attribute to the nearest go-car frame; allocations made by dependencies on their own
	// account (go-cid digest buffers, bufio) are recorded as notes only
	f := fr
	path := f.fn.Pkg.Pkg.Path()
	if !isGoCarPkg(path) {
		// allow helpers called directly by go-car with a go-car-chosen size (io.ReadAll etc. are not)
		ex.noteOnce("symbolic-size allocation inside dependency " + fr.fn.String() + " (not counted against go-car)")
		return
	}
	tt := ex.tt
	bound := tt.Add(ex.allocLimit, ex.allocSlack)
	ok := tt.BAnd(tt.Ule(n, bound), tt.Ule(ex.allocLimit, bound))
	ex.harness.mu.Lock()
	ex.harness.AllocChecks++
	ex.harness.mu.Unlock()
	prefer := tt.BAnd(tt.Ule(tt.BV(1<<18, 64), n), tt.Ule(n, tt.BV(1<<24, 64)))
	ex.assertCheckP(ex.runner, ex.harness, "alloc-bounded@"+fr.fn.Name(), ok, prefer)
}

func isGoCarPkg(path string) bool {
	return len(path) >= 22 && path[:22] == "github.com/ipld/go-car"
}
