package main

// Models of library functions that are not executed from their SSA bodies.

import (
	"fmt"
	"go/types"
	"strings"

	"golang.org/x/tools/go/ssa"
)

type nativeFn func(ex *Exec, args []Value) Value

var nativeTypes = map[types.Type]map[string]nativeFn{}

var intrinsics map[string]intrinsicFn

// packages whose init functions (and therefore package-level variables) are executed from SSA
var initAllowPrefixes = []string{
	"github.com/ipld/go-car",
	"github.com/multiformats/go-varint",
	"github.com/multiformats/go-multihash",
	"github.com/ipfs/go-cid",
	"github.com/ipfs/go-block-format",
	"github.com/ipfs/go-ipld-format",
	"github.com/petar/GoLLRB",
	"github.com/multiformats/go-multicodec",
	"github.com/ipld/go-ipld-prime", "github.com/ipld/go-codec-dagpb", "github.com/ipfs/go-unixfsnode",
	"github.com/ipfs/boxo/chunker", "github.com/multiformats/go-multibase", "github.com/multiformats/go-base32",
	"github.com/multiformats/go-base36", "github.com/mr-tron/base58",
	"errors", "io", "bufio", "bytes", "strings", "sort", "encoding/binary", "path", "path/filepath",
	"unicode/utf8", "math/bits", "strconv", "context", "io/fs", "slices",
}

func initAllowed(path string) bool {
	for _, p := range initAllowPrefixes {
		if path == p || strings.HasPrefix(path, p+"/") {
			return true
		}
	}
	return false
}

// opaqueErr is the payload of an error produced by the fmt.Errorf model.
type opaqueErr struct {
	id      int
	wrapped []*IfaceVal
	format  string
}

func (ex *Exec) newOpaqueError(format string, wrapped []*IfaceVal) *IfaceVal {
	return &IfaceVal{t: sentinelErrType, v: &OpaqueVal{kind: "opaque-error", x: &opaqueErr{id: ex.nextID(), wrapped: wrapped, format: format}}}
}

func isErrorIface(ex *Exec, v Value) (*IfaceVal, bool) {
	iv, ok := v.(*IfaceVal)
	if !ok || iv.t == nil {
		return nil, false
	}
	if iv.t == sentinelErrType {
		return iv, true
	}
	if types.Implements(iv.t, errorType.Underlying().(*types.Interface)) {
		return iv, true
	}
	return nil, false
}

func (ex *Exec) variadicArgs(v Value) []Value {
	s, ok := v.(*SliceVal)
	if !ok || s.arr == nil {
		return nil
	}
	r := make([]Value, s.len)
	for i := range r {
		r[i] = s.arr.e[s.off+i]
	}
	return r
}

func errTuple(ex *Exec, vals ...Value) Value { return TupleVal(vals) }

func nilErr() *IfaceVal { return &IfaceVal{} }

func init() {
	noop := func(ex *Exec, fn *ssa.Function, a []Value) Value { return nil }
	intrinsics = map[string]intrinsicFn{
		"fmt.Errorf": func(ex *Exec, fn *ssa.Function, a []Value) Value {
			format, _ := a[0].(*StrVal).concrete()
			var wrapped []*IfaceVal
			if strings.Contains(format, "%w") {
				for _, arg := range ex.variadicArgs(a[1]) {
					if inner, ok := arg.(*IfaceVal); ok && inner.t != nil {
						if e, ok := isErrorIface(ex, inner); ok {
							wrapped = append(wrapped, e)
						}
					}
				}
			}
			return ex.newOpaqueError(format, wrapped)
		},
		"fmt.Sprintf":  func(ex *Exec, fn *ssa.Function, a []Value) Value { return ex.strConst("<fmt>") },
		"fmt.Sprint":   func(ex *Exec, fn *ssa.Function, a []Value) Value { return ex.strConst("<fmt>") },
		"fmt.Sprintln": func(ex *Exec, fn *ssa.Function, a []Value) Value { return ex.strConst("<fmt>\n") },
		"fmt.Printf":   func(ex *Exec, fn *ssa.Function, a []Value) Value { return TupleVal{ex.intTerm(0), nilErr()} },
		"fmt.Println":  func(ex *Exec, fn *ssa.Function, a []Value) Value { return TupleVal{ex.intTerm(0), nilErr()} },
		"fmt.Print":    func(ex *Exec, fn *ssa.Function, a []Value) Value { return TupleVal{ex.intTerm(0), nilErr()} },
		"fmt.Fprintf":  func(ex *Exec, fn *ssa.Function, a []Value) Value { return TupleVal{ex.intTerm(0), nilErr()} },
		"fmt.Fprintln": func(ex *Exec, fn *ssa.Function, a []Value) Value { return TupleVal{ex.intTerm(0), nilErr()} },
		"fmt.Fprint":   func(ex *Exec, fn *ssa.Function, a []Value) Value { return TupleVal{ex.intTerm(0), nilErr()} },
		"log.Printf":   noop, "log.Println": noop, "log.Print": noop,

		"errors.Is": func(ex *Exec, fn *ssa.Function, a []Value) Value {
			return ex.tt.Bool(ex.errorsIs(a[0].(*IfaceVal), a[1].(*IfaceVal), 0))
		},
		"errors.Unwrap": func(ex *Exec, fn *ssa.Function, a []Value) Value {
			return ex.errorsUnwrap(a[0].(*IfaceVal))
		},
		"errors.As": func(ex *Exec, fn *ssa.Function, a []Value) Value {
			return ex.errorsAs(a[0].(*IfaceVal), a[1].(*IfaceVal))
		},

		"(*sync.Mutex).Lock":      func(ex *Exec, fn *ssa.Function, a []Value) Value { ex.noteLock(a[0], "Lock"); return nil },
		"(*sync.Mutex).Unlock":    func(ex *Exec, fn *ssa.Function, a []Value) Value { ex.noteLock(a[0], "Unlock"); return nil },
		"(*sync.Mutex).TryLock":   func(ex *Exec, fn *ssa.Function, a []Value) Value { ex.noteLock(a[0], "Lock"); return ex.tt.True },
		"(*sync.RWMutex).Lock":    func(ex *Exec, fn *ssa.Function, a []Value) Value { ex.noteLock(a[0], "Lock"); return nil },
		"(*sync.RWMutex).Unlock":  func(ex *Exec, fn *ssa.Function, a []Value) Value { ex.noteLock(a[0], "Unlock"); return nil },
		"(*sync.RWMutex).RLock":   func(ex *Exec, fn *ssa.Function, a []Value) Value { ex.noteLock(a[0], "RLock"); return nil },
		"(*sync.RWMutex).RUnlock": func(ex *Exec, fn *ssa.Function, a []Value) Value { ex.noteLock(a[0], "RUnlock"); return nil },
		"(*sync.Once).Do": func(ex *Exec, fn *ssa.Function, a []Value) Value {
			p := a[0].(*PtrVal)
			if p.cell == nil {
				ex.unsupported("sync.Once inside array")
			}
			if !ex.onceDone[p.cell] {
				ex.onceDone[p.cell] = true
				ex.callValue(a[1], nil, nil)
			}
			return nil
		},
		"(*sync.Pool).Get": func(ex *Exec, fn *ssa.Function, a []Value) Value {
			p := a[0].(*PtrVal)
			// a pooled object may or may not be handed out again: both are explored
			if items := ex.pools[p.cell]; len(items) > 0 && ex.Choose(2, "sync.Pool reuse") == 0 {
				it := items[len(items)-1]
				ex.pools[p.cell] = items[:len(items)-1]
				return it
			}
			pool := p.cell.v.(*StructVal)
			st := fn.Signature.Recv().Type().(*types.Pointer).Elem().Underlying().(*types.Struct)
			for i := 0; i < st.NumFields(); i++ {
				if st.Field(i).Name() == "New" {
					nf := pool.f[i].v.(*FuncVal)
					if nf == nil {
						return &IfaceVal{}
					}
					return ex.callValue(nf, nil, nil)
				}
			}
			return &IfaceVal{}
		},
		"(*sync.Pool).Put": func(ex *Exec, fn *ssa.Function, a []Value) Value {
			p := a[0].(*PtrVal)
			if iv, ok := a[1].(*IfaceVal); ok && iv.t != nil && len(ex.pools[p.cell]) < 2 {
				ex.pools[p.cell] = append(ex.pools[p.cell], iv)
			}
			return nil
		},
		// sync.Cond under the cooperative scheduler: Wait parks the goroutine until a Signal or
		// Broadcast on the same Cond (L is released for the duration: mutexes are only observed
		// in event mode, where Cond is not supported).
		"(*sync.Cond).Wait": func(ex *Exec, fn *ssa.Function, a []Value) Value {
			p := a[0].(*PtrVal)
			if ex.evOn {
				ex.unsupported("sync.Cond in event mode")
			}
			ex.condWaiters[p.cell] = append(ex.condWaiters[p.cell], ex.curG)
			ex.block()
			return nil
		},
		"(*sync.Cond).Broadcast": func(ex *Exec, fn *ssa.Function, a []Value) Value {
			p := a[0].(*PtrVal)
			for _, g := range ex.condWaiters[p.cell] {
				g.blocked = false
			}
			delete(ex.condWaiters, p.cell)
			return nil
		},
		"(*sync.Cond).Signal": func(ex *Exec, fn *ssa.Function, a []Value) Value {
			p := a[0].(*PtrVal)
			if ws := ex.condWaiters[p.cell]; len(ws) > 0 {
				ws[0].blocked = false
				ex.condWaiters[p.cell] = ws[1:]
			}
			return nil
		},
		"(*sync.WaitGroup).Add":   noop,
		"(*sync.WaitGroup).Done":  noop,
		"(*sync.WaitGroup).Wait":  noop,
		"runtime.KeepAlive":       noop,
		"runtime.SetFinalizer":    noop,
		"runtime.Gosched":         noop,
		"runtime.GC":              noop,

		"math/bits.Len64": func(ex *Exec, fn *ssa.Function, a []Value) Value { return ex.bitsLen(a[0].(*Term)) },
		"math/bits.Len32": func(ex *Exec, fn *ssa.Function, a []Value) Value { return ex.bitsLen(a[0].(*Term)) },
		"math/bits.Len16": func(ex *Exec, fn *ssa.Function, a []Value) Value { return ex.bitsLen(a[0].(*Term)) },
		"math/bits.Len8":  func(ex *Exec, fn *ssa.Function, a []Value) Value { return ex.bitsLen(a[0].(*Term)) },
		"math/bits.Len":   func(ex *Exec, fn *ssa.Function, a []Value) Value { return ex.bitsLen(a[0].(*Term)) },
		"math/bits.LeadingZeros64": func(ex *Exec, fn *ssa.Function, a []Value) Value {
			return ex.tt.Sub(ex.intTerm(64), ex.bitsLen(a[0].(*Term)))
		},
		"math/bits.LeadingZeros32": func(ex *Exec, fn *ssa.Function, a []Value) Value {
			return ex.tt.Sub(ex.intTerm(32), ex.bitsLen(a[0].(*Term)))
		},
		"math/bits.TrailingZeros64": func(ex *Exec, fn *ssa.Function, a []Value) Value { return ex.bitsTZ(a[0].(*Term)) },
		"math/bits.TrailingZeros32": func(ex *Exec, fn *ssa.Function, a []Value) Value { return ex.bitsTZ(a[0].(*Term)) },
		"math/bits.TrailingZeros":   func(ex *Exec, fn *ssa.Function, a []Value) Value { return ex.bitsTZ(a[0].(*Term)) },

		"bytes.Compare": func(ex *Exec, fn *ssa.Function, a []Value) Value {
			return ex.bytesCompare(ex.sliceBytesOrNil(a[0].(*SliceVal)), ex.sliceBytesOrNil(a[1].(*SliceVal)))
		},
		"internal/bytealg.Compare": func(ex *Exec, fn *ssa.Function, a []Value) Value {
			return ex.bytesCompare(ex.sliceBytesOrNil(a[0].(*SliceVal)), ex.sliceBytesOrNil(a[1].(*SliceVal)))
		},
		"strings.Compare": func(ex *Exec, fn *ssa.Function, a []Value) Value {
			return ex.bytesCompare(a[0].(*StrVal).b, a[1].(*StrVal).b)
		},
		"bytes.Equal": func(ex *Exec, fn *ssa.Function, a []Value) Value {
			return ex.bytesEq(ex.sliceBytesOrNil(a[0].(*SliceVal)), ex.sliceBytesOrNil(a[1].(*SliceVal)))
		},
		"internal/bytealg.MakeNoZero": func(ex *Exec, fn *ssa.Function, a []Value) Value {
			return ex.makeSliceOf(types.Typ[types.Uint8], a[0].(*Term), a[0].(*Term))
		},
		"internal/bytealg.IndexByte": func(ex *Exec, fn *ssa.Function, a []Value) Value {
			return ex.indexByte(ex.sliceBytesOrNil(a[0].(*SliceVal)), a[1].(*Term))
		},
		"internal/bytealg.IndexByteString": func(ex *Exec, fn *ssa.Function, a []Value) Value {
			return ex.indexByte(a[0].(*StrVal).b, a[1].(*Term))
		},
		"bytes.IndexByte": func(ex *Exec, fn *ssa.Function, a []Value) Value {
			return ex.indexByte(ex.sliceBytesOrNil(a[0].(*SliceVal)), a[1].(*Term))
		},
		"strings.IndexByte": func(ex *Exec, fn *ssa.Function, a []Value) Value {
			return ex.indexByte(a[0].(*StrVal).b, a[1].(*Term))
		},
		"internal/bytealg.CountString": func(ex *Exec, fn *ssa.Function, a []Value) Value {
			s, ok := a[0].(*StrVal).concrete()
			if !ok || !a[1].(*Term).IsConst() {
				ex.unsupported("bytealg.CountString on symbolic data")
			}
			return ex.intTerm(strings.Count(s, string([]byte{byte(a[1].(*Term).val)})))
		},
		"internal/bytealg.IndexString": func(ex *Exec, fn *ssa.Function, a []Value) Value {
			s, ok1 := a[0].(*StrVal).concrete()
			t, ok2 := a[1].(*StrVal).concrete()
			if !ok1 || !ok2 {
				ex.unsupported("bytealg.IndexString on symbolic data")
			}
			return ex.intTerm(strings.Index(s, t))
		},
		"strings.Index": func(ex *Exec, fn *ssa.Function, a []Value) Value {
			s, ok1 := a[0].(*StrVal).concrete()
			t, ok2 := a[1].(*StrVal).concrete()
			if !ok1 || !ok2 {
				ex.unsupported("strings.Index on symbolic data")
			}
			return ex.intTerm(strings.Index(s, t))
		},
		"internal/reflectlite.Swapper": func(ex *Exec, fn *ssa.Function, a []Value) Value {
			s := a[0].(*IfaceVal).v.(*SliceVal)
			return &FuncVal{name: "swapper", native: func(ex *Exec, args []Value) Value {
				i := int(ex.Concretize(args[0].(*Term), "swap index"))
				j := int(ex.Concretize(args[1].(*Term), "swap index"))
				s.arr.e[s.off+i], s.arr.e[s.off+j] = s.arr.e[s.off+j], s.arr.e[s.off+i]
				return nil
			}}
		},
		"internal/reflectlite.ValueOf": func(ex *Exec, fn *ssa.Function, a []Value) Value {
			return &OpaqueVal{kind: "reflectlite.Value", x: a[0]}
		},
		"(internal/reflectlite.Value).Len": func(ex *Exec, fn *ssa.Function, a []Value) Value {
			iv := a[0].(*OpaqueVal).x.(*IfaceVal)
			switch s := iv.v.(type) {
			case *SliceVal:
				return ex.intTerm(s.len)
			case *StrVal:
				return ex.intTerm(len(s.b))
			}
			ex.unsupported("reflectlite.Value.Len")
			return nil
		},
		"unicode/utf8.ValidString": func(ex *Exec, fn *ssa.Function, a []Value) Value {
			s, ok := a[0].(*StrVal).concrete()
			if !ok {
				// over-approximate: nondeterministic
				return ex.newInput("utf8.ValidString", 0)
			}
			return ex.tt.Bool(validUTF8(s))
		},
		"internal/stringslite.Clone": func(ex *Exec, fn *ssa.Function, a []Value) Value { return a[0] },
		"strings.Clone":              func(ex *Exec, fn *ssa.Function, a []Value) Value { return a[0] },
		"(*strings.Builder).copyCheck": noop,
		"internal/abi.NoEscape":       func(ex *Exec, fn *ssa.Function, a []Value) Value { return a[0] },
		"(*strings.Builder).String": func(ex *Exec, fn *ssa.Function, a []Value) Value {
			sv := a[0].(*PtrVal).cell.v.(*StructVal)
			st := fn.Signature.Recv().Type().(*types.Pointer).Elem().Underlying().(*types.Struct)
			for i := 0; i < st.NumFields(); i++ {
				if st.Field(i).Name() == "buf" {
					b := sv.f[i].v.(*SliceVal)
					return &StrVal{b: ex.sliceBytesOrNil(b)}
				}
			}
			ex.unsupported("strings.Builder layout")
			return nil
		},
		"github.com/libp2p/go-buffer-pool.Get": func(ex *Exec, fn *ssa.Function, a []Value) Value {
			return ex.makeSliceOf(types.Typ[types.Uint8], a[0].(*Term), a[0].(*Term))
		},
		"github.com/libp2p/go-buffer-pool.Put": noop,
		"time.Now": func(ex *Exec, fn *ssa.Function, a []Value) Value {
			return ex.zero(fn.Signature.Results().At(0).Type())
		},
	}
	registerHashCborModels()
	registerOSModels()
	registerAtomicModels()
	registerEventAPI()
}

func validUTF8(s string) bool {
	for _, r := range s {
		if r == 0xFFFD {
			// could be a literal U+FFFD; good enough for engine purposes
			_ = r
		}
	}
	return strings.ToValidUTF8(s, "") == s
}

// externalModel supplies models for body-less functions not in the table.
func (ex *Exec) externalModel(fn *ssa.Function) intrinsicFn {
	return nil
}

func (ex *Exec) modelGlobal(g *ssa.Global, et types.Type) (Value, bool) {
	switch g.String() {
	case "os.Stdout", "os.Stderr", "os.Stdin":
		return &PtrVal{}, true
	}
	// plain data globals of non-executed packages read as zero are unsound; refuse
	return nil, false
}

func (ex *Exec) bitsLen(x *Term) *Term {
	tt := ex.tt
	if x.IsConst() {
		n := 0
		for v := x.val; v != 0; v >>= 1 {
			n++
		}
		return ex.intTerm(n)
	}
	w := x.w
	r := ex.intTerm(0)
	for i := uint16(0); i < w; i++ {
		// if x >= 2^i then len >= i+1
		r = tt.Ite(tt.Ule(tt.BV(uint64(1)<<i, w), x), ex.intTerm(int(i)+1), r)
	}
	return r
}

func (ex *Exec) bitsTZ(x *Term) *Term {
	tt := ex.tt
	w := x.w
	r := ex.intTerm(int(w))
	for i := int(w) - 1; i >= 0; i-- {
		bit := tt.Extract(x, uint16(i), uint16(i))
		r = tt.Ite(tt.Eq(bit, tt.BV(1, 1)), ex.intTerm(i), r)
	}
	return r
}

func (ex *Exec) bytesCompare(a, b []*Term) *Term {
	tt := ex.tt
	lt := ex.bytesLess(a, b)
	eq := ex.bytesEq(a, b)
	return tt.Ite(eq, ex.intTerm(0), tt.Ite(lt, ex.intTerm(-1), ex.intTerm(1)))
}

func (ex *Exec) indexByte(b []*Term, c *Term) *Term {
	tt := ex.tt
	r := ex.intTerm(-1)
	for i := len(b) - 1; i >= 0; i-- {
		r = tt.Ite(tt.Eq(b[i], c), ex.intTerm(i), r)
	}
	return r
}

// ---------------------------------------------------------------- errors.Is / As / Unwrap

func (ex *Exec) errorsUnwrapList(e *IfaceVal) []*IfaceVal {
	if e.t == nil {
		return nil
	}
	if e.t == sentinelErrType {
		if oe, ok := e.v.(*OpaqueVal).x.(*opaqueErr); ok {
			return oe.wrapped
		}
		return nil
	}
	ms := ex.prog.MethodSets.MethodSet(e.t)
	for i := 0; i < ms.Len(); i++ {
		sel := ms.At(i)
		if sel.Obj().Name() == "Unwrap" {
			f := ex.prog.MethodValue(sel)
			if f == nil {
				return nil
			}
			r := ex.callFunction(f, []Value{e.v}, nil)
			switch x := r.(type) {
			case *IfaceVal:
				if x.t != nil {
					return []*IfaceVal{x}
				}
			case *SliceVal:
				var l []*IfaceVal
				for _, v := range ex.variadicArgs(x) {
					l = append(l, v.(*IfaceVal))
				}
				return l
			}
		}
	}
	return nil
}

func (ex *Exec) errorsUnwrap(e *IfaceVal) Value {
	l := ex.errorsUnwrapList(e)
	if len(l) == 1 {
		return l[0]
	}
	return &IfaceVal{}
}

func (ex *Exec) errorsIs(e, target *IfaceVal, depth int) bool {
	if e.t == nil || target.t == nil {
		return e.t == nil && target.t == nil
	}
	if depth > 20 {
		return false
	}
	if e.t == sentinelErrType || target.t == sentinelErrType || types.Comparable(e.t) {
		eq := ex.equal(e, target)
		if eq.IsTrue() || (!eq.IsFalse() && ex.Decide(eq)) {
			return true
		}
	}
	// an Is method
	if e.t != sentinelErrType {
		ms := ex.prog.MethodSets.MethodSet(e.t)
		for i := 0; i < ms.Len(); i++ {
			sel := ms.At(i)
			if sel.Obj().Name() == "Is" {
				if f := ex.prog.MethodValue(sel); f != nil && f.Signature.Params().Len() == 1 {
					r := ex.callFunction(f, []Value{e.v, target}, nil)
					if t, ok := r.(*Term); ok && ex.Decide(t) {
						return true
					}
				}
			}
		}
	}
	for _, w := range ex.errorsUnwrapList(e) {
		if ex.errorsIs(w, target, depth+1) {
			return true
		}
	}
	return false
}

func (ex *Exec) errorsAs(e, target *IfaceVal) Value {
	tp := target.t.(*types.Pointer)
	want := tp.Elem()
	ptr := target.v.(*PtrVal)
	var walk func(e *IfaceVal, d int) bool
	walk = func(e *IfaceVal, d int) bool {
		if e.t == nil || d > 20 {
			return false
		}
		if e.t != sentinelErrType {
			ok := false
			if it, isI := want.Underlying().(*types.Interface); isI {
				ok = types.Implements(e.t, it)
				if ok {
					ex.store(ptr, e)
					return true
				}
			} else if types.Identical(e.t, want) {
				ex.store(ptr, e.v)
				return true
			}
		}
		for _, w := range ex.errorsUnwrapList(e) {
			if walk(w, d+1) {
				return true
			}
		}
		return false
	}
	return ex.tt.Bool(walk(e, 0))
}

var _ = fmt.Sprint
