package main

import (
	"encoding/json"
	"flag"
	"fmt"
	"os"
	"os/signal"
	"path/filepath"
	"regexp"
	"runtime"
	"runtime/debug"
	"runtime/pprof"
	"sort"
	"strings"
	"syscall"
	"time"

	"golang.org/x/tools/go/packages"
	"golang.org/x/tools/go/ssa"
	"golang.org/x/tools/go/ssa/ssautil"
)

func runtimeStack(buf []byte) int { return runtime.Stack(buf, false) }

var (
	verifDir = "/verif"
	repoDir  = "/repo"
)

type moduleSpec struct {
	name string // v2 | root | cmd
	dir  string // directory of the module inside the repo
}

func modules() []moduleSpec {
	return []moduleSpec{{"v2", filepath.Join(repoDir, "v2")}, {"root", repoDir}, {"cmd", filepath.Join(repoDir, "cmd")}}
}

// harnessFiles returns, for one module, map[package dir relative to module] -> harness files.
func harnessFiles(mod string) map[string][]string {
	res := map[string][]string{}
	base := filepath.Join(verifDir, "harness", mod)
	filepath.Walk(base, func(p string, info os.FileInfo, err error) error {
		if err != nil || info.IsDir() {
			return nil
		}
		if strings.HasSuffix(p, ".go") && strings.HasPrefix(filepath.Base(p), "zz_verif_") {
			rel, _ := filepath.Rel(base, filepath.Dir(p))
			res[rel] = append(res[rel], p)
		}
		return nil
	})
	return res
}

var harnessFnRe = regexp.MustCompile(`func (VerifH_(C[0-9]+)_[A-Za-z0-9_]+)\(\)`)

type harnessRef struct {
	name   string
	prop   string
	mod    string
	pkgRel string
}

func discover(prop string) []harnessRef {
	var out []harnessRef
	for _, m := range modules() {
		for rel, files := range harnessFiles(m.name) {
			for _, f := range files {
				src, err := os.ReadFile(f)
				if err != nil {
					continue
				}
				for _, mm := range harnessFnRe.FindAllStringSubmatch(string(src), -1) {
					if prop == "" || mm[2] == prop {
						out = append(out, harnessRef{name: mm[1], prop: mm[2], mod: m.name, pkgRel: rel})
					}
				}
			}
		}
	}
	sort.Slice(out, func(i, j int) bool { return out[i].name < out[j].name })
	return out
}

func pkgClause(dir string) string {
	ents, _ := os.ReadDir(dir)
	re := regexp.MustCompile(`(?m)^package\s+(\w+)`)
	for _, e := range ents {
		n := e.Name()
		if strings.HasSuffix(n, ".go") && !strings.HasSuffix(n, "_test.go") && !strings.HasPrefix(n, "zz_verif_") {
			src, err := os.ReadFile(filepath.Join(dir, n))
			if err == nil {
				if m := re.FindSubmatch(src); m != nil {
					return string(m[1])
				}
			}
		}
	}
	return ""
}

// buildOverlay maps virtual files inside the repo to the harness sources, and adds the api file.
// When forTest is set a _test.go driver listing the harness functions is added as well.
func buildOverlay(mod moduleSpec, names map[string][]string, forTest bool, tmpDir string) (map[string][]byte, []string) {
	ov := map[string][]byte{}
	var pkgDirs []string
	api, err := os.ReadFile(filepath.Join(verifDir, "harness", "api", "zz_verif_api.go.tmpl"))
	if err != nil {
		fatal("missing api template: " + err.Error())
	}
	for rel, files := range harnessFiles(mod.name) {
		dir := filepath.Join(mod.dir, rel)
		pk := pkgClause(dir)
		if pk == "" {
			fatal("cannot determine package clause of " + dir)
		}
		pkgDirs = append(pkgDirs, dir)
		for _, f := range files {
			src, _ := os.ReadFile(f)
			ov[filepath.Join(dir, filepath.Base(f))] = src
		}
		ov[filepath.Join(dir, "zz_verif_api.go")] = []byte(strings.Replace(string(api), "package PKG", "package "+pk, 1))
		if forTest {
			var sb strings.Builder
			fmt.Fprintf(&sb, "package %s\n\nimport \"testing\"\n\nfunc TestVerifReplay(t *testing.T) {\n\tvReplayMain(map[string]func(){\n", pk)
			for _, n := range names[rel] {
				fmt.Fprintf(&sb, "\t\t%q: %s,\n", n, n)
			}
			sb.WriteString("\t})\n}\n")
			ov[filepath.Join(dir, "zz_verif_replay_test.go")] = []byte(sb.String())
		}
	}
	sort.Strings(pkgDirs)
	return ov, pkgDirs
}

func fatal(msg string) {
	fmt.Fprintln(os.Stderr, "gosmt:", msg)
	os.Exit(3)
}

// cmdModfile prepares a scratch go.mod for the cmd module that points at the live repo.
func cmdModfile(scratch string) string {
	src, err := os.ReadFile(filepath.Join(repoDir, "cmd", "go.mod"))
	if err != nil {
		fatal(err.Error())
	}
	mod := string(src) + fmt.Sprintf("\nreplace github.com/ipld/go-car/v2 => %s\nreplace github.com/ipld/go-car => %s\n", filepath.Join(repoDir, "v2"), repoDir)
	mf := filepath.Join(scratch, "go.mod")
	os.WriteFile(mf, []byte(mod), 0o644)
	var sum []byte
	for _, p := range []string{"cmd/go.sum", "go.sum", "v2/go.sum"} {
		b, _ := os.ReadFile(filepath.Join(repoDir, p))
		sum = append(sum, b...)
	}
	os.WriteFile(filepath.Join(scratch, "go.sum"), sum, 0o644)
	return mf
}

func goEnv() []string {
	env := os.Environ()
	env = append(env, "GOFLAGS=-mod=mod", "GOPROXY=off", "GOSUMDB=off", "GOTOOLCHAIN=local")
	return env
}

func loadProgram(mod moduleSpec, scratch string) (*ssa.Program, []*packages.Package, map[string][]byte) {
	ov, pkgDirs := buildOverlay(mod, nil, false, scratch)
	cfg := &packages.Config{
		Mode:    packages.LoadAllSyntax,
		Dir:     mod.dir,
		Overlay: ov,
		Env:     goEnv(),
	}
	if mod.name == "cmd" {
		mf := cmdModfile(scratch)
		cfg.BuildFlags = []string{"-modfile=" + mf}
	}
	var patterns []string
	for _, d := range pkgDirs {
		rel, _ := filepath.Rel(mod.dir, d)
		patterns = append(patterns, "./"+rel)
	}
	pkgs, err := packages.Load(cfg, patterns...)
	if err != nil {
		fatal("packages.Load: " + err.Error())
	}
	nerr := 0
	packages.Visit(pkgs, nil, func(p *packages.Package) {
		for _, e := range p.Errors {
			if nerr < 20 {
				fmt.Fprintln(os.Stderr, "load error:", e)
			}
			nerr++
		}
	})
	if nerr > 0 {
		fatal(fmt.Sprintf("%d package load errors in module %s", nerr, mod.name))
	}
	prog, _ := ssautil.AllPackages(pkgs, ssa.InstantiateGenerics)
	prog.Build()
	return prog, pkgs, ov
}

type harnessResult struct {
	ref harnessRef
	h   *Harness
	wall float64
}

func main() {
	if len(os.Args) < 2 {
		fatal("usage: gosmt run|replay|list ...")
	}
	if v := os.Getenv("VERIF_REPO"); v != "" {
		repoDir = v
	}
	if v := os.Getenv("VERIF_DIR"); v != "" {
		verifDir = v
	}
	switch os.Args[1] {
	case "run":
		os.Exit(cmdRun(os.Args[2:]))
	case "replay":
		os.Exit(cmdReplay(os.Args[2:]))
	case "list":
		for _, h := range discover("") {
			fmt.Println(h.prop, h.mod, h.pkgRel, h.name)
		}
	default:
		fatal("unknown command " + os.Args[1])
	}
}

func cmdRun(args []string) int {
	fs := flag.NewFlagSet("run", flag.ExitOnError)
	prop := fs.String("prop", "", "property id (C01..)")
	tier := fs.String("tier", "quick", "quick|thorough")
	only := fs.String("harness", "", "regexp restricting harness names")
	workers := fs.Int("workers", 0, "parallel workers (default: NumCPU)")
	noReplay := fs.Bool("no-replay", false, "skip native replays")
	noEvidence := fs.Bool("no-evidence", false, "do not write the evidence file")
	verbose := fs.Bool("v", false, "verbose")
	solver := fs.String("solver", "z3", "z3|z3-new|cvc5")
	maxPaths := fs.Int("max-paths", 0, "stop a harness after this many paths (0 = no limit)")
	cpuprof := fs.String("cpuprofile", "", "write a CPU profile")
	fs.Parse(args)
	if *prop == "" {
		fatal("--prop required")
	}
	if *cpuprof != "" {
		pf, _ := os.Create(*cpuprof)
		pprof.StartCPUProfile(pf)
		defer pprof.StopCPUProfile()
	}
	if t := os.Getenv("VERIF_TIER"); t == "quick" || t == "thorough" {
		*tier = t
	}
	if *workers == 0 {
		*workers = runtime.NumCPU()
	}
	debug.SetGCPercent(400)
	start := time.Now()
	refs := discover(*prop)
	if *only != "" {
		re := regexp.MustCompile(*only)
		var f []harnessRef
		for _, r := range refs {
			if re.MatchString(r.name) {
				f = append(f, r)
			}
		}
		refs = f
	}
	if len(refs) == 0 {
		fatal("no harness for property " + *prop)
	}
	known := loadKnownFindings()
	cfg := Config{maxSteps: 3000000, maxLoop: 300, maxDepth: 200, maxIteChain: 96, maxConcretize: 600, timeoutMs: 20000, solverKind: *solver, maxAllocCells: 1 << 19, bigAlloc: 64}
	if *tier == "thorough" {
		cfg.timeoutMs = 120000
		cfg.maxLoop = 1200
		cfg.maxSteps = 20000000
		cfg.maxConcretize = 5000
	}
	os.Setenv("VERIF_TIER", *tier)
	scratch, err := os.MkdirTemp("", "gosmt")
	if err != nil {
		fatal(err.Error())
	}
	defer os.RemoveAll(scratch)
	sigc := make(chan os.Signal, 1)
	signal.Notify(sigc, syscall.SIGTERM, syscall.SIGINT)
	go func() {
		<-sigc
		os.RemoveAll(scratch)
		os.Exit(3)
	}()

	var results []*harnessResult
	byMod := map[string][]harnessRef{}
	for _, r := range refs {
		byMod[r.mod] = append(byMod[r.mod], r)
	}
	for _, mod := range modules() {
		rs := byMod[mod.name]
		if len(rs) == 0 {
			continue
		}
		t0 := time.Now()
		prog, pkgs, _ := loadProgram(mod, scratch)
		if *verbose {
			fmt.Fprintf(os.Stderr, "loaded module %s in %.1fs\n", mod.name, time.Since(t0).Seconds())
		}
		runner := &Runner{prog: prog, cfg: cfg, workers: *workers, known: known, propID: *prop, tier: *tier}
		for _, ref := range rs {
			var fn *ssa.Function
			for _, p := range pkgs {
				sp := prog.Package(p.Types)
				if sp == nil {
					continue
				}
				if f := sp.Func(ref.name); f != nil {
					fn = f
				}
			}
			if fn == nil {
				fatal("harness function not found in SSA: " + ref.name)
			}
			h := &Harness{Name: ref.name, Fn: fn, maxPaths: *maxPaths}
			hs := time.Now()
			runner.RunHarness(h)
			res := &harnessResult{ref: ref, h: h, wall: time.Since(hs).Seconds()}
			results = append(results, res)
			if *verbose {
				fmt.Fprintf(os.Stderr, "%s: paths=%d steps=%d obligations=%d discharged=%d violations=%d known=%d inconclusive=%d queries=%d solver=%.1fs wall=%.1fs ends=%v\n",
					h.Name, h.Paths, h.Steps, h.Obligations, h.Discharged, len(h.Violations), len(h.Known), len(h.Inconcl), h.Queries, h.SolverTime.Seconds(), res.wall, h.EndKinds)
				for k, n := range h.Inconcl {
					fmt.Fprintf(os.Stderr, "   inconclusive x%d: %s\n", n, k)
				}
			}
		}
	}
	return finish(*prop, *tier, results, known, !*noReplay, !*noEvidence, time.Since(start).Seconds(), cfg)
}

// ---------------------------------------------------------------- known findings

func loadKnownFindings() map[string]bool {
	res := map[string]bool{}
	b, err := os.ReadFile(filepath.Join(verifDir, "known_findings.txt"))
	if err != nil {
		return res
	}
	re := regexp.MustCompile(`^known:\s+property=(C[0-9]+)\s+slug=([A-Za-z0-9_.-]+)`)
	for _, l := range strings.Split(string(b), "\n") {
		if m := re.FindStringSubmatch(strings.TrimSpace(l)); m != nil {
			res[m[1]+"/"+m[2]] = true
		}
	}
	return res
}

func knownDescription(slug string) string {
	b, err := os.ReadFile(filepath.Join(verifDir, "known_findings.txt"))
	if err != nil {
		return ""
	}
	parts := strings.SplitN(slug, "/", 2)
	for _, l := range strings.Split(string(b), "\n") {
		l = strings.TrimSpace(l)
		if strings.HasPrefix(l, "known:") && strings.Contains(l, "property="+parts[0]+" ") && strings.Contains(l, "slug="+parts[1]+" ") {
			i := strings.Index(l, "slug="+parts[1])
			return strings.TrimSpace(l[i+len("slug="+parts[1]):])
		}
	}
	return ""
}

var _ = json.Marshal
