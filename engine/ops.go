package main

import (
	"fmt"
	"go/token"
	"go/types"
	"unicode/utf8"

	"golang.org/x/tools/go/ssa"
)

func (ex *Exec) unop(fr *Frame, x *ssa.UnOp) Value {
	v := ex.get(fr, x.X)
	switch x.Op {
	case token.MUL: // load
		return ex.load(v.(*PtrVal))
	case token.NOT:
		return ex.tt.BNot(v.(*Term))
	case token.SUB:
		if f, ok := v.(FloatVal); ok {
			return -f
		}
		return ex.tt.Neg(v.(*Term))
	case token.XOR:
		return ex.tt.BvNot(v.(*Term))
	case token.ARROW:
		val, ok := ex.chanRecv(v.(*ChanVal))
		if x.CommaOk {
			return TupleVal{val, ex.tt.Bool(ok)}
		}
		return val
	}
	ex.unsupported("unop " + x.Op.String())
	return nil
}

func (ex *Exec) binop(op token.Token, xt types.Type, a, b Value, yt types.Type) Value {
	tt := ex.tt
	switch x := a.(type) {
	case *Term:
		y, ok := b.(*Term)
		if !ok {
			ex.unsupported(fmt.Sprintf("binop %s on term and %T", op, b))
		}
		w, signed, _ := bvInfo(xt)
		if w == 0 {
			switch op {
			case token.EQL:
				return tt.Eq(x, y)
			case token.NEQ:
				return tt.BNot(tt.Eq(x, y))
			case token.AND, token.LAND:
				return tt.BAnd(x, y)
			case token.OR, token.LOR:
				return tt.BOr(x, y)
			}
			ex.unsupported("bool binop " + op.String())
		}
		switch op {
		case token.ADD:
			return tt.Add(x, y)
		case token.SUB:
			return tt.Sub(x, y)
		case token.MUL:
			return tt.Mul(x, y)
		case token.QUO, token.REM:
			ex.checkPanic(tt.Eq(y, tt.BV(0, w)), "runtime error: integer divide by zero")
			if op == token.QUO {
				if signed {
					return tt.SDiv(x, y)
				}
				return tt.UDiv(x, y)
			}
			if signed {
				return tt.SRem(x, y)
			}
			return tt.URem(x, y)
		case token.AND:
			return tt.And(x, y)
		case token.OR:
			return tt.Or(x, y)
		case token.XOR:
			return tt.Xor(x, y)
		case token.AND_NOT:
			return tt.And(x, tt.BvNot(y))
		case token.SHL, token.SHR:
			// shift count y may have a different width and signedness
			yw, ysigned, _ := bvInfo(yt)
			if ysigned {
				ex.checkPanic(tt.Slt(y, tt.BV(0, yw)), "runtime error: negative shift amount")
			}
			var cnt *Term
			if yw == w {
				cnt = y
			} else if yw < w {
				cnt = tt.ZExt(y, w)
			} else {
				// saturate: if y >= w then result is 0 / sign fill
				big := tt.Ule(tt.BV(uint64(w), yw), y)
				cnt = tt.Ite(big, tt.BV(uint64(w), w), tt.Extract(y, w-1, 0))
			}
			if op == token.SHL {
				return tt.Shl(x, cnt)
			}
			if signed {
				return tt.AShr(x, cnt)
			}
			return tt.LShr(x, cnt)
		case token.EQL:
			return tt.Eq(x, y)
		case token.NEQ:
			return tt.BNot(tt.Eq(x, y))
		case token.LSS:
			if signed {
				return tt.Slt(x, y)
			}
			return tt.Ult(x, y)
		case token.LEQ:
			if signed {
				return tt.Sle(x, y)
			}
			return tt.Ule(x, y)
		case token.GTR:
			if signed {
				return tt.Slt(y, x)
			}
			return tt.Ult(y, x)
		case token.GEQ:
			if signed {
				return tt.Sle(y, x)
			}
			return tt.Ule(y, x)
		}
	case *StrVal:
		y := b.(*StrVal)
		switch op {
		case token.ADD:
			r := &StrVal{b: make([]*Term, 0, len(x.b)+len(y.b))}
			r.b = append(append(r.b, x.b...), y.b...)
			return r
		case token.EQL:
			return ex.bytesEq(x.b, y.b)
		case token.NEQ:
			return tt.BNot(ex.bytesEq(x.b, y.b))
		case token.LSS:
			return ex.bytesLess(x.b, y.b)
		case token.GTR:
			return ex.bytesLess(y.b, x.b)
		case token.LEQ:
			return tt.BNot(ex.bytesLess(y.b, x.b))
		case token.GEQ:
			return tt.BNot(ex.bytesLess(x.b, y.b))
		}
	case FloatVal:
		y := b.(FloatVal)
		switch op {
		case token.ADD:
			return x + y
		case token.SUB:
			return x - y
		case token.MUL:
			return x * y
		case token.QUO:
			return x / y
		case token.EQL:
			return tt.Bool(x == y)
		case token.NEQ:
			return tt.Bool(x != y)
		case token.LSS:
			return tt.Bool(x < y)
		case token.LEQ:
			return tt.Bool(x <= y)
		case token.GTR:
			return tt.Bool(x > y)
		case token.GEQ:
			return tt.Bool(x >= y)
		}
	}
	switch op {
	case token.EQL:
		return ex.equal(a, b)
	case token.NEQ:
		return tt.BNot(ex.equal(a, b))
	}
	ex.unsupported(fmt.Sprintf("binop %s on %T", op, a))
	return nil
}

// checkPanic: if cond can hold, the panicking side is explored as a separate path.
func (ex *Exec) checkPanic(cond *Term, msg string) {
	if cond.IsFalse() {
		return
	}
	if ex.Decide(cond) {
		ex.goPanicStr(msg)
	}
}

func (ex *Exec) convert(from, to types.Type, v Value) Value {
	tt := ex.tt
	fu, tu := from.Underlying(), to.Underlying()
	if t, ok := v.(*Term); ok {
		fw, fsigned, _ := bvInfo(from)
		if tw, _, ok := bvInfo(to); ok && tw > 0 && fw > 0 {
			switch {
			case tw == fw:
				return t
			case tw < fw:
				return tt.Extract(t, tw-1, 0)
			case fsigned:
				return tt.SExt(t, tw)
			default:
				return tt.ZExt(t, tw)
			}
		}
		if isString(to) {
			// string(rune)
			if t.IsConst() {
				return ex.strConst(string(rune(sext(t.val, t.w))))
			}
			ex.unsupported("string(symbolic rune)")
		}
		if isFloat(to) {
			if t.IsConst() {
				if fsigned {
					return FloatVal(float64(sext(t.val, t.w)))
				}
				return FloatVal(float64(t.val))
			}
			ex.noteOnce("float-conversion-of-symbolic-int: treated as opaque 0.0")
			return FloatVal(0)
		}
		if b, ok := tu.(*types.Basic); ok && b.Kind() == types.UnsafePointer {
			ex.unsupported("uintptr to unsafe.Pointer")
		}
	}
	if f, ok := v.(FloatVal); ok {
		if isFloat(to) {
			return f
		}
		if tw, signed, ok := bvInfo(to); ok && tw > 0 {
			if signed {
				return tt.BV(uint64(int64(f)), tw)
			}
			return tt.BV(uint64(f), tw)
		}
	}
	if s, ok := v.(*StrVal); ok {
		if isString(to) {
			return s
		}
		if sl, ok := tu.(*types.Slice); ok {
			if w, _, _ := bvInfo(sl.Elem()); w == 8 {
				return ex.mkByteSliceNonNil(s.b)
			}
			// []rune
			str, okc := s.concrete()
			if !okc {
				ex.unsupported("[]rune(symbolic string)")
			}
			rs := []rune(str)
			ts := make([]*Term, len(rs))
			a := &ArrObj{e: make([]Value, len(rs)), et: sl.Elem(), id: ex.nextID()}
			for i, r := range rs {
				ts[i] = tt.BV(uint64(r), 32)
				a.e[i] = ts[i]
			}
			return &SliceVal{arr: a, len: len(rs), cap: len(rs)}
		}
	}
	if sl, ok := v.(*SliceVal); ok {
		if isString(to) {
			fs := fu.(*types.Slice)
			if w, _, _ := bvInfo(fs.Elem()); w == 8 {
				if sl.arr == nil {
					return &StrVal{}
				}
				return &StrVal{b: ex.sliceBytes(sl)}
			}
			// string([]rune)
			var rs []rune
			for i := 0; i < sl.len; i++ {
				t := sl.arr.e[sl.off+i].(*Term)
				if !t.IsConst() {
					ex.unsupported("string(symbolic []rune)")
				}
				rs = append(rs, rune(t.val))
			}
			return ex.strConst(string(rs))
		}
		if _, ok := tu.(*types.Slice); ok {
			return sl
		}
	}
	if p, ok := v.(*PtrVal); ok {
		if _, ok := tu.(*types.Pointer); ok {
			return p
		}
		if b, ok := tu.(*types.Basic); ok && b.Kind() == types.UnsafePointer {
			return p
		}
	}
	ex.unsupported(fmt.Sprintf("conversion %s -> %s (%T)", from, to, v))
	return nil
}

func (ex *Exec) mkByteSliceNonNil(b []*Term) *SliceVal {
	s := ex.mkByteSlice(b)
	return s
}

// ---------------------------------------------------------------- indexing and slicing

func (ex *Exec) boundsCheck(idx *Term, n int, signedIdx bool, what string) {
	tt := ex.tt
	// idx is BV64 (int). in bounds iff idx <u n  (negative values are huge unsigned)
	inb := tt.Ult(idx, tt.BV(uint64(n), 64))
	if inb.IsTrue() {
		return
	}
	if !ex.Decide(inb) {
		ex.goPanicStr(fmt.Sprintf("runtime error: index out of range [%s] with length %d", what, n))
	}
}

func (ex *Exec) toInt64Term(t *Term, typ types.Type) *Term {
	w, signed, _ := bvInfo(typ)
	if w == 64 {
		return t
	}
	if signed {
		return ex.tt.SExt(t, 64)
	}
	return ex.tt.ZExt(t, 64)
}

func (ex *Exec) indexAddr(fr *Frame, x *ssa.IndexAddr) Value {
	base := ex.get(fr, x.X)
	idx := ex.toInt64Term(ex.get(fr, x.Index).(*Term), x.Index.Type())
	switch b := base.(type) {
	case *SliceVal:
		if b.symLen != nil {
			inb := ex.tt.Ult(idx, b.symLen)
			if !inb.IsTrue() && !ex.Decide(inb) {
				ex.goPanicStr("runtime error: index out of range (slice of symbolic length)")
			}
			phys := ex.tt.Ult(idx, ex.tt.BV(uint64(b.len), 64))
			if !phys.IsTrue() && !ex.Decide(phys) {
				panic(pathEnd{kind: "bound", msg: "index into a large symbolic-length buffer beyond its modelled cells"})
			}
			return &PtrVal{arr: b.arr, idx: ex.tt.Add(idx, ex.tt.BV(uint64(b.off), 64))}
		}
		ex.boundsCheck(idx, b.len, true, "slice")
		return &PtrVal{arr: b.arr, idx: ex.tt.Add(idx, ex.tt.BV(uint64(b.off), 64))}
	case *PtrVal: // pointer to array
		if b.isNil() {
			ex.goPanicStr("runtime error: invalid memory address or nil pointer dereference")
		}
		var arr *ArrObj
		if b.cell != nil {
			arr = b.cell.v.(*ArrObj)
		} else {
			i := ex.Concretize(b.idx, "array-of-array index")
			arr = b.arr.e[i].(*ArrObj)
		}
		ex.boundsCheck(idx, len(arr.e), true, "array")
		return &PtrVal{arr: arr, idx: idx}
	}
	ex.unsupported(fmt.Sprintf("IndexAddr on %T", base))
	return nil
}

func (ex *Exec) index(fr *Frame, x *ssa.Index) Value {
	base := ex.get(fr, x.X)
	idx := ex.toInt64Term(ex.get(fr, x.Index).(*Term), x.Index.Type())
	switch b := base.(type) {
	case *ArrObj:
		ex.boundsCheck(idx, len(b.e), true, "array")
		return ex.arrLoad(b, idx)
	case *StrVal:
		ex.boundsCheck(idx, len(b.b), true, "string")
		if idx.IsConst() {
			return b.b[idx.val]
		}
		if len(b.b) > ex.cfg.maxIteChain {
			i := ex.Concretize(idx, "string index")
			return b.b[i]
		}
		r := b.b[len(b.b)-1]
		for i := len(b.b) - 2; i >= 0; i-- {
			r = ex.tt.Ite(ex.tt.Eq(idx, ex.tt.BV(uint64(i), 64)), b.b[i], r)
		}
		return r
	}
	ex.unsupported(fmt.Sprintf("Index on %T", base))
	return nil
}

// intOperand concretizes an optional slice bound.
func (ex *Exec) sliceBound(fr *Frame, v ssa.Value, def int, what string) (int, *Term) {
	if v == nil {
		return def, nil
	}
	t := ex.toInt64Term(ex.get(fr, v).(*Term), v.Type())
	if t.IsConst() {
		return int(int64(t.val)), t
	}
	return 0, t
}

func (ex *Exec) sliceOp(fr *Frame, x *ssa.Slice) Value {
	base := ex.get(fr, x.X)
	var length, capacity, off int
	var arr *ArrObj
	var str *StrVal
	var lazyFrom *Term
	switch b := base.(type) {
	case *SliceVal:
		if b.symLen != nil {
			if r, ok := ex.sliceOpSym(fr, x, b); ok {
				return r
			}
			b = ex.mat(b)
		} else if x.High != nil && x.Max == nil && b.arr != nil {
			// s[lo:h] with a symbolic h on a concrete slice: keep the length symbolic
			if ht, isT := ex.get(fr, x.High).(*Term); isT && !ht.IsConst() {
				if r, ok := ex.sliceOpSymHigh(fr, x, b); ok {
					return r
				}
			}
		}
		if b.lazyCap != nil {
			// reslicing within the length keeps the capacity lazy; anything that looks at the
			// capacity (a max bound, or a high bound beyond the length) decides it now
			within := x.Max == nil
			if within && x.High != nil {
				ht, isT := ex.get(fr, x.High).(*Term)
				within = isT && ht.IsConst() && int64(ht.val) >= 0 && int(int64(ht.val)) <= b.len
			}
			if within {
				lazyFrom = b.lazyCap
			} else {
				ex.forceCap(b)
			}
		}
		arr, off, length, capacity = b.arr, b.off, b.len, b.cap
	case *StrVal:
		str = b
		length, capacity = len(b.b), len(b.b)
	case *PtrVal:
		if b.isNil() {
			ex.goPanicStr("runtime error: invalid memory address or nil pointer dereference")
		}
		if b.cell != nil {
			arr = b.cell.v.(*ArrObj)
		} else {
			i := ex.Concretize(b.idx, "array-of-array index")
			arr = b.arr.e[i].(*ArrObj)
		}
		length, capacity = len(arr.e), len(arr.e)
	default:
		ex.unsupported(fmt.Sprintf("Slice on %T", base))
	}
	lo, lot := ex.sliceBound(fr, x.Low, 0, "low")
	hi, hit := ex.sliceBound(fr, x.High, length, "high")
	mx, mxt := ex.sliceBound(fr, x.Max, capacity, "max")
	tt := ex.tt
	// bounds: 0 <= lo <= hi <= max <= cap
	lim := capacity
	if str != nil {
		lim = length
	}
	// symbolic bounds: check then concretize
	chk := func(t *Term, cond *Term, what string) {
		if cond.IsTrue() {
			return
		}
		if !ex.Decide(cond) {
			ex.goPanicStr("runtime error: slice bounds out of range (" + what + ")")
		}
	}
	if mxt != nil && !mxt.IsConst() {
		chk(mxt, tt.Ule(mxt, tt.BV(uint64(lim), 64)), "max")
		mx = int(ex.Concretize(mxt, "slice max"))
	} else if mx < 0 || mx > lim {
		ex.goPanicStr(fmt.Sprintf("runtime error: slice bounds out of range [::%d] with capacity %d", mx, lim))
	}
	if hit != nil && !hit.IsConst() {
		chk(hit, tt.Ule(hit, tt.BV(uint64(mx), 64)), "high")
		hi = int(ex.Concretize(hit, "slice high"))
	} else if hi < 0 || hi > mx {
		ex.goPanicStr(fmt.Sprintf("runtime error: slice bounds out of range [:%d] with capacity %d", hi, mx))
	}
	if lot != nil && !lot.IsConst() {
		chk(lot, tt.Ule(lot, tt.BV(uint64(hi), 64)), "low")
		lo = int(ex.Concretize(lot, "slice low"))
	} else if lo < 0 || lo > hi {
		ex.goPanicStr(fmt.Sprintf("runtime error: slice bounds out of range [%d:%d]", lo, hi))
	}
	if str != nil {
		return &StrVal{b: str.b[lo:hi]}
	}
	if arr == nil {
		return &SliceVal{}
	}
	r := &SliceVal{arr: arr, off: off + lo, len: hi - lo, cap: mx - lo}
	if lazyFrom != nil {
		r.lazyCap = ex.tt.Sub(lazyFrom, ex.intTerm(lo))
	}
	return r
}

// sliceOpSym: reslicing a slice of symbolic length. Handles s[lo:] with a concrete lo (the length
// stays symbolic) and s[lo:h] with concrete bounds inside the modelled cells.
func (ex *Exec) sliceOpSym(fr *Frame, x *ssa.Slice, b *SliceVal) (Value, bool) {
	tt := ex.tt
	if x.Max != nil {
		return nil, false
	}
	lo := 0
	if x.Low != nil {
		lt := ex.toInt64Term(ex.get(fr, x.Low).(*Term), x.Low.Type())
		if !lt.IsConst() {
			return nil, false
		}
		lo = int(int64(lt.val))
	}
	if x.High == nil {
		if lo < 0 {
			ex.goPanicStr("runtime error: slice bounds out of range")
		}
		okc := tt.Ule(ex.intTerm(lo), b.symLen)
		if !okc.IsTrue() && !ex.Decide(okc) {
			ex.goPanicStr("runtime error: slice bounds out of range [lo:] (symbolic length)")
		}
		if lo > b.len {
			panic(pathEnd{kind: "bound", msg: "reslice of a large symbolic-length buffer beyond its modelled cells"})
		}
		r := &SliceVal{arr: b.arr, off: b.off + lo, len: b.len - lo, cap: b.cap - lo, symLen: tt.Sub(b.symLen, ex.intTerm(lo))}
		if b.symCap != nil {
			r.symCap = tt.Sub(b.symCap, ex.intTerm(lo))
		}
		return r, true
	}
	ht := ex.toInt64Term(ex.get(fr, x.High).(*Term), x.High.Type())
	if !ht.IsConst() {
		// s[lo:h] with symbolic h on a symbolic-length slice
		var capT *Term
		if b.symCap != nil {
			capT = b.symCap
		} else {
			capT = ex.intTerm(b.cap)
		}
		okc := tt.BAnd(tt.Ule(ht, capT), tt.Ule(ex.intTerm(lo), ht))
		if lo < 0 {
			ex.goPanicStr("runtime error: slice bounds out of range")
		}
		if !okc.IsTrue() && !ex.Decide(okc) {
			ex.goPanicStr("runtime error: slice bounds out of range [lo:h] (symbolic)")
		}
		if lo > b.len {
			panic(pathEnd{kind: "bound", msg: "reslice of a large symbolic-length buffer beyond its modelled cells"})
		}
		r := &SliceVal{arr: b.arr, off: b.off + lo, len: b.len - lo, cap: b.cap - lo, symLen: tt.Sub(ht, ex.intTerm(lo))}
		if b.symCap != nil {
			r.symCap = tt.Sub(b.symCap, ex.intTerm(lo))
		}
		return r, true
	}
	hi := int(int64(ht.val))
	// hi must be within the capacity
	var capOK *Term
	if b.symCap != nil {
		capOK = tt.Ule(ex.intTerm(hi), b.symCap)
	} else {
		capOK = tt.Bool(hi <= b.cap)
	}
	if hi < 0 || lo < 0 || lo > hi {
		ex.goPanicStr("runtime error: slice bounds out of range")
	}
	if !capOK.IsTrue() && !ex.Decide(capOK) {
		ex.goPanicStr("runtime error: slice bounds out of range [:hi] (symbolic capacity)")
	}
	if hi > b.len {
		panic(pathEnd{kind: "bound", msg: "reslice of a large symbolic-length buffer beyond its modelled cells"})
	}
	return &SliceVal{arr: b.arr, off: b.off + lo, len: hi - lo, cap: b.cap - lo}, true
}

// sliceOpSymHigh: s[lo:h] on a concrete slice with symbolic h and concrete lo.
func (ex *Exec) sliceOpSymHigh(fr *Frame, x *ssa.Slice, b *SliceVal) (Value, bool) {
	tt := ex.tt
	ex.forceCap(b)
	lo := 0
	if x.Low != nil {
		lt := ex.toInt64Term(ex.get(fr, x.Low).(*Term), x.Low.Type())
		if !lt.IsConst() {
			return nil, false
		}
		lo = int(int64(lt.val))
	}
	if lo < 0 || lo > b.cap {
		return nil, false
	}
	ht := ex.toInt64Term(ex.get(fr, x.High).(*Term), x.High.Type())
	okc := tt.BAnd(tt.Ule(ht, ex.intTerm(b.cap)), tt.Ule(ex.intTerm(lo), ht))
	if !okc.IsTrue() && !ex.Decide(okc) {
		ex.goPanicStr("runtime error: slice bounds out of range [lo:h] (symbolic h)")
	}
	return &SliceVal{arr: b.arr, off: b.off + lo, len: b.cap - lo, cap: b.cap - lo, symLen: tt.Sub(ht, ex.intTerm(lo))}, true
}

func (ex *Exec) makeSlice(fr *Frame, x *ssa.MakeSlice) Value {
	lt := ex.toInt64Term(ex.get(fr, x.Len).(*Term), x.Len.Type())
	ct := ex.toInt64Term(ex.get(fr, x.Cap).(*Term), x.Cap.Type())
	et := x.Type().Underlying().(*types.Slice).Elem()
	return ex.makeSliceOf(et, lt, ct)
}

func (ex *Exec) makeSliceOf(et types.Type, lt, ct *Term) *SliceVal {
	tt := ex.tt
	ex.recordAlloc(ct, et)
	// runtime check: 0 <= len <= cap <= maxAlloc/elemsize
	const maxAlloc = uint64(1) << 47
	bad := tt.BOr(tt.Ult(tt.BV(maxAlloc, 64), ct), tt.Ult(ct, lt))
	if !bad.IsFalse() {
		if ex.Decide(bad) {
			ex.goPanicStr("runtime error: makeslice: len out of range")
		}
	}
	if !lt.IsConst() && ct == lt {
		K := ex.cfg.bigAlloc
		if _, _, scalar := bvInfo(et); scalar && ex.Decide(tt.Ult(ex.intTerm(K), lt)) {
			// large allocation: model the first K+1 cells, keep the length symbolic
			a := &ArrObj{e: make([]Value, K+1), et: et, id: ex.nextID()}
			z := ex.zero(et)
			for i := range a.e {
				a.e[i] = z
			}
			return &SliceVal{arr: a, off: 0, len: K + 1, cap: K + 1, symLen: lt, symCap: lt}
		}
	}
	n := int(ex.Concretize(lt, "make len"))
	c := n
	if ct != lt {
		c = int(ex.Concretize(ct, "make cap"))
	}
	if c > ex.cfg.maxAllocCells {
		panic(pathEnd{kind: "bound", msg: fmt.Sprintf("allocation of %d elements exceeds engine bound in %s", c, ex.whereNow())})
	}
	a := &ArrObj{e: make([]Value, c), et: et, id: ex.nextID()}
	if c > 0 {
		if _, _, ok := bvInfo(et); ok {
			z := ex.zero(et)
			for i := range a.e {
				a.e[i] = z
			}
		} else {
			for i := range a.e {
				a.e[i] = ex.zero(et)
			}
		}
	}
	return &SliceVal{arr: a, off: 0, len: n, cap: c}
}

// ---------------------------------------------------------------- maps

func (ex *Exec) mapFind(m *MapVal, k Value) int {
	for i, mk := range m.keys {
		eq := ex.equal(mk, k)
		if eq.IsFalse() {
			continue
		}
		if eq.IsTrue() || ex.Decide(eq) {
			return i
		}
	}
	return -1
}

func (ex *Exec) mapUpdate(m *MapVal, k, v Value) {
	if m == nil {
		ex.goPanicStr("assignment to entry in nil map")
	}
	ex.noteMapAccess(m, true)
	if i := ex.mapFind(m, k); i >= 0 {
		m.vals[i] = ex.copyVal(v)
		return
	}
	m.keys = append(m.keys, ex.copyVal(k))
	m.vals = append(m.vals, ex.copyVal(v))
}

func (ex *Exec) mapDelete(m *MapVal, k Value) {
	if m == nil {
		return
	}
	ex.noteMapAccess(m, true)
	if i := ex.mapFind(m, k); i >= 0 {
		m.keys = append(m.keys[:i:i], m.keys[i+1:]...)
		m.vals = append(m.vals[:i:i], m.vals[i+1:]...)
	}
}

func (ex *Exec) lookup(fr *Frame, x *ssa.Lookup) Value {
	base := ex.get(fr, x.X)
	if s, ok := base.(*StrVal); ok {
		idx := ex.toInt64Term(ex.get(fr, x.Index).(*Term), x.Index.Type())
		ex.boundsCheck(idx, len(s.b), true, "string")
		if idx.IsConst() {
			return s.b[idx.val]
		}
		i := ex.Concretize(idx, "string index")
		return s.b[i]
	}
	m := base.(*MapVal)
	k := ex.get(fr, x.Index)
	var val Value
	found := false
	if m != nil {
		ex.noteMapAccess(m, false)
		if i := ex.mapFind(m, k); i >= 0 {
			val, found = ex.copyVal(m.vals[i]), true
		}
	}
	if !found {
		val = ex.zero(x.X.Type().Underlying().(*types.Map).Elem())
	}
	if x.CommaOk {
		return TupleVal{val, ex.tt.Bool(found)}
	}
	return val
}

func (ex *Exec) rangeInit(v Value) Value {
	switch x := v.(type) {
	case *StrVal:
		return &RangeIter{str: x}
	case *MapVal:
		it := &RangeIter{m: x}
		if x != nil {
			ex.noteMapAccess(x, false)
			n := len(x.keys)
			order := make([]int, n)
			for i := range order {
				order[i] = i
			}
			if ex.mapNondet && n >= 2 {
				if n > 4 {
					ex.noteOnce("map with more than 4 entries ranged in insertion order only")
				} else {
					perms := permutations(n)
					k := ex.Choose(len(perms), "map-order")
					order = perms[k]
				}
			}
			for _, i := range order {
				it.keys = append(it.keys, x.keys[i])
				it.vals = append(it.vals, x.vals[i])
			}
		}
		return it
	}
	ex.unsupported(fmt.Sprintf("range over %T", v))
	return nil
}

func permutations(n int) [][]int {
	var res [][]int
	var rec func(cur []int, used []bool)
	rec = func(cur []int, used []bool) {
		if len(cur) == n {
			res = append(res, append([]int(nil), cur...))
			return
		}
		for i := 0; i < n; i++ {
			if !used[i] {
				used[i] = true
				rec(append(cur, i), used)
				used[i] = false
			}
		}
	}
	rec(nil, make([]bool, n))
	return res
}

func (ex *Exec) rangeNext(x *ssa.Next, it *RangeIter) Value {
	tt := ex.tt
	if x.IsString {
		if it.pos >= len(it.str.b) {
			return TupleVal{tt.False, tt.BV(0, 64), tt.BV(0, 32)}
		}
		// decode one rune; requires concrete bytes
		var buf []byte
		for i := it.pos; i < len(it.str.b) && i < it.pos+4; i++ {
			if !it.str.b[i].IsConst() {
				if i == it.pos {
					// a symbolic byte: split on ASCII
					if ex.Decide(tt.Ult(it.str.b[i], tt.BV(0x80, 8))) {
						r := tt.ZExt(it.str.b[i], 32)
						p := it.pos
						it.pos++
						return TupleVal{tt.True, tt.BV(uint64(p), 64), r}
					}
					ex.unsupported("range over string with symbolic non-ASCII byte")
				}
				break
			}
			buf = append(buf, byte(it.str.b[i].val))
		}
		r, sz := utf8.DecodeRune(buf)
		if r == utf8.RuneError && sz <= 1 && len(buf) < 4 && it.pos+len(buf) < len(it.str.b) {
			ex.unsupported("range over string: multi-byte sequence with symbolic continuation")
		}
		p := it.pos
		it.pos += sz
		return TupleVal{tt.True, tt.BV(uint64(p), 64), tt.BV(uint64(r), 32)}
	}
	if it.pos >= len(it.keys) {
		mt := x.Iter.(*ssa.Range).X.Type().Underlying().(*types.Map)
		return TupleVal{tt.False, ex.zero(mt.Key()), ex.zero(mt.Elem())}
	}
	// skip entries deleted during iteration
	for it.pos < len(it.keys) {
		k, v := it.keys[it.pos], it.vals[it.pos]
		it.pos++
		still := false
		for i, mk := range it.m.keys {
			if mk == k || (isTermEq(mk, k)) {
				still = true
				v = it.m.vals[i]
				break
			}
		}
		if !still {
			continue
		}
		return TupleVal{tt.True, ex.copyVal(k), ex.copyVal(v)}
	}
	mt := x.Iter.(*ssa.Range).X.Type().Underlying().(*types.Map)
	return TupleVal{tt.False, ex.zero(mt.Key()), ex.zero(mt.Elem())}
}

func isTermEq(a, b Value) bool {
	x, ok1 := a.(*Term)
	y, ok2 := b.(*Term)
	return ok1 && ok2 && x == y
}
