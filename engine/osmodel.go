package main

type modelFS struct{}

func registerOSModels() {}
