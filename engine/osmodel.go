package main

// Model file system: *os.File is a concrete type that go-car names, so its methods are modelled
// here over an in-engine tree (path -> file with symbolic content of concrete length).

import (
	"fmt"
	"go/token"
	"go/types"
	"path"
	"sort"
	"strings"

	"golang.org/x/tools/go/ssa"
)

type mfile struct {
	data []*Term
	id   int
}

type mnode struct {
	kind   int // 0 file, 1 dir, 2 symlink
	file   *mfile
	target string
}

type fsWrite struct {
	path string
	off  int
	data []*Term
	trunc int // >=0: truncate to this size
}

type mhandle struct {
	path   string
	f      *mfile
	pos    int
	symPos *Term // non-nil: the cursor is this BV64 term (set by Seek with a symbolic offset)
	closed bool
	write  bool
	appendMode bool
}

type modelFS struct {
	nodes   map[string]*mnode
	handles map[*Cell]*mhandle
	log     []fsWrite
	cwd     string
	mark    int
}

func (ex *Exec) getFS() *modelFS {
	if ex.fs == nil {
		ex.fs = &modelFS{nodes: map[string]*mnode{"/": {kind: 1}, "/vfs": {kind: 1}}, handles: map[*Cell]*mhandle{}, cwd: "/vfs"}
	}
	return ex.fs
}

var dirEntryType = types.NewNamed(types.NewTypeName(token.NoPos, nil, "verifDirEntry", nil), types.NewStruct(nil, nil), nil)

var fileInfoType = types.NewNamed(types.NewTypeName(token.NoPos, nil, "verifFileInfo", nil), types.NewStruct(nil, nil), nil)

type mfileInfo struct {
	name string
	size int
	kind int
}

func (ex *Exec) osErr(kind string, op, p string) *IfaceVal {
	// errors are *fs.PathError wrapping a sentinel; modelled as an opaque error wrapping fs.ErrNotExist etc.
	var inner *IfaceVal
	switch kind {
	case "notexist":
		inner = ex.pkgGlobalValue("io/fs", "ErrNotExist").(*IfaceVal)
	case "exist":
		inner = ex.pkgGlobalValue("io/fs", "ErrExist").(*IfaceVal)
	case "closed":
		inner = ex.pkgGlobalValue("io/fs", "ErrClosed").(*IfaceVal)
	default:
		inner = ex.pkgGlobalValue("io/fs", "ErrInvalid").(*IfaceVal)
	}
	return ex.newOpaqueError(op+" "+p+": "+kind, []*IfaceVal{inner})
}

func (fs *modelFS) clean(p string) string {
	if !strings.HasPrefix(p, "/") {
		p = path.Join(fs.cwd, p)
	}
	return path.Clean(p)
}

// resolve follows symlinks in every component (and in the last one if followLast). Components are
// walked one at a time as the kernel does: ".." is the parent of the directory reached so far (after
// symlink resolution), not a lexical cancellation of the previous component.
func (fs *modelFS) resolve(p string, followLast bool, depth int) (string, bool) {
	if depth > 16 {
		return "", false
	}
	if !strings.HasPrefix(p, "/") {
		p = fs.cwd + "/" + p
	}
	var parts []string
	for _, c := range strings.Split(p, "/") {
		if c != "" && c != "." {
			parts = append(parts, c)
		}
	}
	cur := "/"
	for i, comp := range parts {
		last := i == len(parts)-1
		if comp == ".." {
			cur = path.Dir(cur)
			continue
		}
		next := path.Join(cur, comp)
		n := fs.nodes[next]
		if n != nil && n.kind == 2 && (!last || followLast) {
			tgt := n.target
			if !strings.HasPrefix(tgt, "/") {
				tgt = cur + "/" + tgt
			}
			rest := strings.Join(parts[i+1:], "/")
			return fs.resolve(tgt+"/"+rest, followLast, depth+1)
		}
		if n == nil && !last {
			return next, false // missing intermediate directory
		}
		if n != nil && !last && n.kind != 1 {
			return next, false
		}
		cur = next
	}
	return cur, true
}

func (ex *Exec) newFileValue(h *mhandle, t types.Type) Value {
	// t is *os.File
	et := t.(*types.Pointer).Elem()
	c := ex.newCell(ex.zero(et))
	ex.getFS().handles[c] = h
	return &PtrVal{cell: c, typ: et}
}

func (ex *Exec) handleOf(v Value) *mhandle {
	p, ok := v.(*PtrVal)
	if !ok || p.isNil() || p.cell == nil {
		ex.goPanicStr("runtime error: invalid memory address or nil pointer dereference (nil *os.File)")
	}
	h := ex.getFS().handles[p.cell]
	if h == nil {
		ex.unsupported("*os.File not created by the model file system")
	}
	return h
}

// concreteString returns the string value, case-splitting over every symbolic byte (the harness
// keeps names over a small alphabet, so the split is small).
func (ex *Exec) concreteString(v Value, what string) string {
	sv := v.(*StrVal)
	if s, ok := sv.concrete(); ok {
		return s
	}
	bs := make([]byte, len(sv.b))
	for i, t := range sv.b {
		bs[i] = byte(ex.Concretize(t, what+" byte"))
	}
	return string(bs)
}

const (
	oWRONLY = 0x1
	oRDWR   = 0x2
	oAPPEND = 0x400
	oCREATE = 0x40
	oEXCL   = 0x80
	oTRUNC  = 0x200
)

func (ex *Exec) fsOpen(fn *ssa.Function, name string, flag int) Value {
	fs := ex.getFS()
	ft := fn.Signature.Results().At(0).Type()
	rp, ok := fs.resolve(name, true, 0)
	if !ok {
		return TupleVal{&PtrVal{}, ex.osErr("notexist", "open", name)}
	}
	n := fs.nodes[rp]
	if n == nil {
		if flag&oCREATE == 0 {
			return TupleVal{&PtrVal{}, ex.osErr("notexist", "open", name)}
		}
		parent := fs.nodes[path.Dir(rp)]
		if parent == nil || parent.kind != 1 {
			return TupleVal{&PtrVal{}, ex.osErr("notexist", "open", name)}
		}
		n = &mnode{kind: 0, file: &mfile{id: ex.nextID()}}
		fs.nodes[rp] = n
		fs.log = append(fs.log, fsWrite{path: rp, trunc: 0})
	} else {
		if flag&oCREATE != 0 && flag&oEXCL != 0 {
			return TupleVal{&PtrVal{}, ex.osErr("exist", "open", name)}
		}
		if n.kind == 1 {
			if flag&(oWRONLY|oRDWR) != 0 {
				return TupleVal{&PtrVal{}, ex.osErr("invalid", "open", name)}
			}
			h := &mhandle{path: rp, f: &mfile{}}
			return TupleVal{ex.newFileValue(h, ft), nilErr()}
		}
		if flag&oTRUNC != 0 && flag&(oWRONLY|oRDWR) != 0 {
			n.file.data = nil
			fs.log = append(fs.log, fsWrite{path: rp, trunc: 0})
		}
	}
	h := &mhandle{path: rp, f: n.file, write: flag&(oWRONLY|oRDWR) != 0, appendMode: flag&oAPPEND != 0}
	return TupleVal{ex.newFileValue(h, ft), nilErr()}
}

func (ex *Exec) fsWriteAt(h *mhandle, data []*Term, off int) {
	f := h.f
	for len(f.data) < off+len(data) {
		f.data = append(f.data, ex.tt.BV(0, 8))
	}
	copy(f.data[off:], data)
	ex.getFS().log = append(ex.getFS().log, fsWrite{path: h.path, off: off, data: append([]*Term(nil), data...), trunc: -1})
}

// filePos makes the cursor concrete. A symbolic cursor at or beyond the end of the file behaves the
// same for every value as far as reads are concerned, so it is split only into "inside" (case split
// over the few positions) and "at or past the end" (represented by a position past the end).
func (ex *Exec) filePos(h *mhandle, forWrite bool) int {
	if h.symPos == nil {
		return h.pos
	}
	t := h.symPos
	size := len(h.f.data)
	if !forWrite {
		if ex.Decide(ex.tt.Ule(ex.intTerm(size), t)) {
			// keep the cursor symbolic; reads see EOF
			return size
		}
	}
	p := int(ex.Concretize(t, "file position"))
	h.pos, h.symPos = p, nil
	return p
}

// transferLen: min(len(p), avail) for a destination whose length may be symbolic, and whether the
// destination is longer than what is available (short read).
func (ex *Exec) transferLen(p *SliceVal, avail int) (n int, short bool) {
	if p.symLen == nil {
		if p.len <= avail {
			return p.len, false
		}
		return avail, true
	}
	tt := ex.tt
	if ex.Decide(tt.Ule(ex.intTerm(avail), p.symLen)) {
		if avail > p.len {
			panic(pathEnd{kind: "bound", msg: "read into a large symbolic-length buffer beyond its modelled cells"})
		}
		return avail, ex.Decide(tt.Ult(ex.intTerm(avail), p.symLen))
	}
	return int(ex.Concretize(p.symLen, "read length")), false
}

func (ex *Exec) intArg(v Value, what string) int {
	return int(int64(ex.Concretize(v.(*Term), what)))
}

func registerOSModels() {
	ioEOF := func(ex *Exec) Value { return ex.pkgGlobalValue("io", "EOF") }
	intrinsics["os.OpenFile"] = func(ex *Exec, fn *ssa.Function, a []Value) Value {
		return ex.fsOpen(fn, ex.concreteString(a[0], "file name"), ex.intArg(a[1], "open flags"))
	}
	intrinsics["os.Open"] = func(ex *Exec, fn *ssa.Function, a []Value) Value {
		return ex.fsOpen(fn, ex.concreteString(a[0], "file name"), 0)
	}
	intrinsics["os.Create"] = func(ex *Exec, fn *ssa.Function, a []Value) Value {
		return ex.fsOpen(fn, ex.concreteString(a[0], "file name"), oRDWR|oCREATE|oTRUNC)
	}
	statImpl := func(follow bool) intrinsicFn {
		return func(ex *Exec, fn *ssa.Function, a []Value) Value {
			fs := ex.getFS()
			name := ex.concreteString(a[0], "file name")
			rp, ok := fs.resolve(name, follow, 0)
			n := fs.nodes[rp]
			if !ok || n == nil {
				return TupleVal{&IfaceVal{}, ex.osErr("notexist", "stat", name)}
			}
			sz := 0
			if n.kind == 0 {
				sz = len(n.file.data)
			}
			return TupleVal{&IfaceVal{t: fileInfoType, v: &OpaqueVal{kind: "fileinfo", x: &mfileInfo{name: path.Base(rp), size: sz, kind: n.kind}}}, nilErr()}
		}
	}
	intrinsics["os.Stat"] = statImpl(true)
	intrinsics["os.Lstat"] = statImpl(false)
	intrinsics["(*os.File).Stat"] = func(ex *Exec, fn *ssa.Function, a []Value) Value {
		h := ex.handleOf(a[0])
		if h.closed {
			return TupleVal{&IfaceVal{}, ex.osErr("closed", "stat", h.path)}
		}
		return TupleVal{&IfaceVal{t: fileInfoType, v: &OpaqueVal{kind: "fileinfo", x: &mfileInfo{name: path.Base(h.path), size: len(h.f.data)}}}, nilErr()}
	}
	nativeTypes[fileInfoType] = map[string]nativeFn{
		"Size":  func(ex *Exec, a []Value) Value { return ex.intTerm(a[0].(*OpaqueVal).x.(*mfileInfo).size) },
		"IsDir": func(ex *Exec, a []Value) Value { return ex.tt.Bool(a[0].(*OpaqueVal).x.(*mfileInfo).kind == 1) },
		"Name":  func(ex *Exec, a []Value) Value { return ex.strConst(a[0].(*OpaqueVal).x.(*mfileInfo).name) },
		"Mode": func(ex *Exec, a []Value) Value {
			fi := a[0].(*OpaqueVal).x.(*mfileInfo)
			m := uint64(0o644)
			if fi.kind == 1 {
				m = 1<<31 | 0o755
			} else if fi.kind == 2 {
				m = 1<<27 | 0o777
			}
			return ex.tt.BV(m, 32)
		},
		"ModTime": func(ex *Exec, a []Value) Value { ex.unsupported("FileInfo.ModTime"); return nil },
		"Sys":     func(ex *Exec, a []Value) Value { return &IfaceVal{} },
	}
	intrinsics["(*os.File).Name"] = func(ex *Exec, fn *ssa.Function, a []Value) Value {
		return ex.strConst(ex.handleOf(a[0]).path)
	}
	intrinsics["(*os.File).Close"] = func(ex *Exec, fn *ssa.Function, a []Value) Value {
		p := a[0].(*PtrVal)
		if p.isNil() {
			return ex.pkgGlobalValue("os", "ErrInvalid")
		}
		h := ex.handleOf(a[0])
		if h.closed {
			return ex.osErr("closed", "close", h.path)
		}
		h.closed = true
		return nilErr()
	}
	intrinsics["(*os.File).ReadAt"] = func(ex *Exec, fn *ssa.Function, a []Value) Value {
		h := ex.handleOf(a[0])
		if h.closed {
			return TupleVal{ex.intTerm(0), ex.osErr("closed", "read", h.path)}
		}
		p := a[1].(*SliceVal)
		offT := a[2].(*Term)
		if ex.Decide(ex.tt.Slt(offT, ex.intTerm(0))) {
			return TupleVal{ex.intTerm(0), ex.newOpaqueError("negative offset", nil)}
		}
		if !offT.IsConst() && ex.Decide(ex.tt.Ule(ex.intTerm(len(h.f.data)), offT)) {
			// at or past the end: the same for every such offset
			if p.len == 0 {
				return TupleVal{ex.intTerm(0), nilErr()}
			}
			return TupleVal{ex.intTerm(0), ioEOF(ex)}
		}
		off := ex.intArg(offT, "ReadAt offset")
		cnt, short := ex.transferLen(p, len(h.f.data)-off)
		for n := 0; n < cnt; n++ {
			p.arr.e[p.off+n] = h.f.data[off+n]
		}
		if short {
			return TupleVal{ex.intTerm(cnt), ioEOF(ex)}
		}
		return TupleVal{ex.intTerm(cnt), nilErr()}
	}
	intrinsics["(*os.File).Read"] = func(ex *Exec, fn *ssa.Function, a []Value) Value {
		h := ex.handleOf(a[0])
		if h.closed {
			return TupleVal{ex.intTerm(0), ex.osErr("closed", "read", h.path)}
		}
		p := a[1].(*SliceVal)
		if p.symLen == nil && p.len == 0 {
			return TupleVal{ex.intTerm(0), nilErr()}
		}
		if p.symLen != nil && ex.Decide(ex.tt.Eq(p.symLen, ex.intTerm(0))) {
			return TupleVal{ex.intTerm(0), nilErr()}
		}
		pos := ex.filePos(h, false)
		avail := len(h.f.data) - pos
		if avail < 0 {
			avail = 0
		}
		cnt, _ := ex.transferLen(p, avail)
		for n := 0; n < cnt; n++ {
			p.arr.e[p.off+n] = h.f.data[pos+n]
		}
		if h.symPos == nil {
			h.pos = pos + cnt
		}
		if cnt == 0 {
			return TupleVal{ex.intTerm(0), ioEOF(ex)}
		}
		return TupleVal{ex.intTerm(cnt), nilErr()}
	}
	intrinsics["(*os.File).WriteAt"] = func(ex *Exec, fn *ssa.Function, a []Value) Value {
		h := ex.handleOf(a[0])
		if h.closed {
			return TupleVal{ex.intTerm(0), ex.osErr("closed", "write", h.path)}
		}
		if !h.write {
			return TupleVal{ex.intTerm(0), ex.newOpaqueError("bad file descriptor", nil)}
		}
		p := a[1].(*SliceVal)
		off := ex.intArg(a[2], "WriteAt offset")
		if off < 0 {
			return TupleVal{ex.intTerm(0), ex.newOpaqueError("negative offset", nil)}
		}
		ex.fsWriteAt(h, ex.sliceBytesOrNil(p), off)
		return TupleVal{ex.intTerm(p.len), nilErr()}
	}
	intrinsics["(*os.File).Write"] = func(ex *Exec, fn *ssa.Function, a []Value) Value {
		h := ex.handleOf(a[0])
		if h.closed {
			return TupleVal{ex.intTerm(0), ex.osErr("closed", "write", h.path)}
		}
		if !h.write {
			return TupleVal{ex.intTerm(0), ex.newOpaqueError("bad file descriptor", nil)}
		}
		p := a[1].(*SliceVal)
		if h.appendMode {
			h.pos, h.symPos = len(h.f.data), nil
		}
		h.pos = ex.filePos(h, true)
		if h.pos+p.len > ex.cfg.maxAllocCells {
			panic(pathEnd{kind: "bound", msg: "write far beyond the end of a model file"})
		}
		ex.fsWriteAt(h, ex.sliceBytesOrNil(p), h.pos)
		h.pos += p.len
		return TupleVal{ex.intTerm(p.len), nilErr()}
	}
	intrinsics["(*os.File).WriteString"] = func(ex *Exec, fn *ssa.Function, a []Value) Value {
		h := ex.handleOf(a[0])
		s := a[1].(*StrVal)
		h.pos = ex.filePos(h, true)
		ex.fsWriteAt(h, s.b, h.pos)
		h.pos += len(s.b)
		return TupleVal{ex.intTerm(len(s.b)), nilErr()}
	}
	intrinsics["(*os.File).Seek"] = func(ex *Exec, fn *ssa.Function, a []Value) Value {
		h := ex.handleOf(a[0])
		if h.closed {
			return TupleVal{ex.intTerm(0), ex.osErr("closed", "seek", h.path)}
		}
		tt := ex.tt
		offT := a[1].(*Term)
		wh := ex.intArg(a[2], "Seek whence")
		var base *Term
		switch wh {
		case 0:
			base = ex.intTerm(0)
		case 1:
			if h.symPos != nil {
				base = h.symPos
			} else {
				base = ex.intTerm(h.pos)
			}
		case 2:
			base = ex.intTerm(len(h.f.data))
		default:
			return TupleVal{ex.intTerm(0), ex.newOpaqueError("invalid whence", nil)}
		}
		abs := tt.Add(base, offT)
		// negative result (as int64) is an error
		if ex.Decide(tt.Slt(abs, ex.intTerm(0))) {
			return TupleVal{ex.intTerm(0), ex.newOpaqueError("negative position", nil)}
		}
		if abs.IsConst() {
			h.pos, h.symPos = int(abs.val), nil
		} else {
			h.symPos = abs
		}
		return TupleVal{abs, nilErr()}
	}
	intrinsics["(*os.File).Truncate"] = func(ex *Exec, fn *ssa.Function, a []Value) Value {
		h := ex.handleOf(a[0])
		if h.closed {
			return ex.osErr("closed", "truncate", h.path)
		}
		sz := ex.intArg(a[1], "Truncate size")
		if sz < 0 {
			return ex.newOpaqueError("truncate: invalid argument", nil)
		}
		ex.fsTruncate(h.path, h.f, sz)
		return nilErr()
	}
	// golang.org/x/exp/mmap: a read-only view of a model file
	intrinsics["golang.org/x/exp/mmap.Open"] = func(ex *Exec, fn *ssa.Function, a []Value) Value {
		fs := ex.getFS()
		name := ex.concreteString(a[0], "file name")
		rp, ok := fs.resolve(name, true, 0)
		n := fs.nodes[rp]
		ft := fn.Signature.Results().At(0).Type()
		if !ok || n == nil || n.kind != 0 {
			return TupleVal{&PtrVal{}, ex.osErr("notexist", "open", name)}
		}
		h := &mhandle{path: rp, f: n.file}
		return TupleVal{ex.newFileValue(h, ft), nilErr()}
	}
	intrinsics["(*golang.org/x/exp/mmap.ReaderAt).Close"] = func(ex *Exec, fn *ssa.Function, a []Value) Value {
		h := ex.handleOf(a[0])
		h.closed = true
		return nilErr()
	}
	intrinsics["(*golang.org/x/exp/mmap.ReaderAt).Len"] = func(ex *Exec, fn *ssa.Function, a []Value) Value {
		return ex.intTerm(len(ex.handleOf(a[0]).f.data))
	}
	intrinsics["(*golang.org/x/exp/mmap.ReaderAt).ReadAt"] = func(ex *Exec, fn *ssa.Function, a []Value) Value {
		h := ex.handleOf(a[0])
		if h.closed {
			return TupleVal{ex.intTerm(0), ex.newOpaqueError("mmap: closed", nil)}
		}
		p := a[1].(*SliceVal)
		offT := a[2].(*Term)
		if ex.Decide(ex.tt.BOr(ex.tt.Slt(offT, ex.intTerm(0)), ex.tt.Slt(ex.intTerm(len(h.f.data)), offT))) {
			return TupleVal{ex.intTerm(0), ex.newOpaqueError("mmap: invalid ReadAt offset", nil)}
		}
		off := ex.intArg(offT, "ReadAt offset")
		n := 0
		for n < p.len && off+n < len(h.f.data) {
			p.arr.e[p.off+n] = h.f.data[off+n]
			n++
		}
		if n < p.len {
			return TupleVal{ex.intTerm(n), ioEOF(ex)}
		}
		return TupleVal{ex.intTerm(n), nilErr()}
	}
	intrinsics["(*os.File).Sync"] = func(ex *Exec, fn *ssa.Function, a []Value) Value { return nilErr() }
	intrinsics["os.Truncate"] = func(ex *Exec, fn *ssa.Function, a []Value) Value {
		fs := ex.getFS()
		name := ex.concreteString(a[0], "file name")
		rp, ok := fs.resolve(name, true, 0)
		n := fs.nodes[rp]
		if !ok || n == nil || n.kind != 0 {
			return ex.osErr("notexist", "truncate", name)
		}
		sz := ex.intArg(a[1], "Truncate size")
		if sz < 0 {
			return ex.newOpaqueError("truncate: invalid argument", nil)
		}
		ex.fsTruncate(rp, n.file, sz)
		return nilErr()
	}
	intrinsics["os.Remove"] = func(ex *Exec, fn *ssa.Function, a []Value) Value {
		fs := ex.getFS()
		name := ex.concreteString(a[0], "file name")
		rp, ok := fs.resolve(name, false, 0)
		if !ok || fs.nodes[rp] == nil {
			return ex.osErr("notexist", "remove", name)
		}
		delete(fs.nodes, rp)
		fs.log = append(fs.log, fsWrite{path: rp, trunc: -2})
		return nilErr()
	}
	intrinsics["(*os.File).ReadFrom"] = func(ex *Exec, fn *ssa.Function, a []Value) Value {
		return ex.callBody(ex.pkgFunc("os", "genericReadFrom"), a, nil)
	}
	intrinsics["(*os.File).WriteTo"] = func(ex *Exec, fn *ssa.Function, a []Value) Value {
		return ex.callBody(ex.pkgFunc("os", "genericWriteTo"), a, nil)
	}
	intrinsics["os.MkdirAll"] = func(ex *Exec, fn *ssa.Function, a []Value) Value {
		fs := ex.getFS()
		name := ex.concreteString(a[0], "dir name")
		if !strings.HasPrefix(name, "/") {
			name = fs.cwd + "/" + name
		}
		parts := strings.Split(name, "/")
		cur := ""
		for _, c := range parts {
			if c == "" {
				continue
			}
			// prefixes are not cleaned lexically: os.MkdirAll works on the path as the OS resolves it
			next := cur + "/" + c
			rp, ok := fs.resolve(next, true, 0)
			if !ok {
				return ex.osErr("notexist", "mkdir", name)
			}
			n := fs.nodes[rp]
			if n == nil {
				fs.nodes[rp] = &mnode{kind: 1}
				fs.log = append(fs.log, fsWrite{path: rp, trunc: -3})
			} else if n.kind != 1 {
				return ex.newOpaqueError("mkdir: not a directory", nil)
			}
			cur = rp
		}
		return nilErr()
	}
	intrinsics["os.Mkdir"] = func(ex *Exec, fn *ssa.Function, a []Value) Value {
		fs := ex.getFS()
		name := ex.concreteString(a[0], "dir name")
		rp, ok := fs.resolve(name, false, 0)
		if !ok {
			return ex.osErr("notexist", "mkdir", name)
		}
		if fs.nodes[rp] != nil {
			return ex.osErr("exist", "mkdir", name)
		}
		fs.nodes[rp] = &mnode{kind: 1}
		fs.log = append(fs.log, fsWrite{path: rp, trunc: -3})
		return nilErr()
	}
	intrinsics["os.Symlink"] = func(ex *Exec, fn *ssa.Function, a []Value) Value {
		fs := ex.getFS()
		target := ex.concreteString(a[0], "symlink target")
		name := ex.concreteString(a[1], "symlink name")
		rp, ok := fs.resolve(name, false, 0)
		if !ok {
			return ex.osErr("notexist", "symlink", name)
		}
		if fs.nodes[rp] != nil {
			return ex.osErr("exist", "symlink", name)
		}
		fs.nodes[rp] = &mnode{kind: 2, target: target}
		fs.log = append(fs.log, fsWrite{path: rp, trunc: -4})
		return nilErr()
	}
	intrinsics["path/filepath.EvalSymlinks"] = func(ex *Exec, fn *ssa.Function, a []Value) Value {
		fs := ex.getFS()
		name := ex.concreteString(a[0], "path")
		rp, ok := fs.resolve(name, true, 0)
		if !ok || fs.nodes[rp] == nil {
			return TupleVal{&StrVal{}, ex.osErr("notexist", "lstat", name)}
		}
		if !strings.HasPrefix(name, "/") {
			// relative in, relative out
			rel := strings.TrimPrefix(rp, fs.cwd+"/")
			if rp == fs.cwd {
				rel = "."
			}
			return TupleVal{ex.strConst(rel), nilErr()}
		}
		return TupleVal{ex.strConst(rp), nilErr()}
	}
	intrinsics["os.Readlink"] = func(ex *Exec, fn *ssa.Function, a []Value) Value {
		fs := ex.getFS()
		name := ex.concreteString(a[0], "file name")
		rp, ok := fs.resolve(name, false, 0)
		n := fs.nodes[rp]
		if !ok || n == nil {
			return TupleVal{&StrVal{}, ex.osErr("notexist", "readlink", name)}
		}
		if n.kind != 2 {
			return TupleVal{&StrVal{}, ex.osErr("invalid", "readlink", name)}
		}
		return TupleVal{ex.strConst(n.target), nilErr()}
	}
	intrinsics["os.ReadDir"] = func(ex *Exec, fn *ssa.Function, a []Value) Value {
		fs := ex.getFS()
		name := ex.concreteString(a[0], "dir name")
		rp, ok := fs.resolve(name, true, 0)
		n := fs.nodes[rp]
		if !ok || n == nil || n.kind != 1 {
			return TupleVal{&SliceVal{}, ex.osErr("notexist", "readdir", name)}
		}
		var names []string
		for p := range fs.nodes {
			if path.Dir(p) == rp && p != rp {
				names = append(names, path.Base(p))
			}
		}
		sort.Strings(names)
		et := fn.Signature.Results().At(0).Type().Underlying().(*types.Slice).Elem()
		arr := &ArrObj{e: make([]Value, len(names)), et: et, id: ex.nextID()}
		for i, nm := range names {
			c := fs.nodes[path.Join(rp, nm)]
			sz := 0
			if c.kind == 0 {
				sz = len(c.file.data)
			}
			arr.e[i] = &IfaceVal{t: dirEntryType, v: &OpaqueVal{kind: "direntry", x: &mfileInfo{name: nm, size: sz, kind: c.kind}}}
		}
		return TupleVal{&SliceVal{arr: arr, len: len(names), cap: len(names)}, nilErr()}
	}
	nativeTypes[dirEntryType] = map[string]nativeFn{
		"Name":  func(ex *Exec, a []Value) Value { return ex.strConst(a[0].(*OpaqueVal).x.(*mfileInfo).name) },
		"IsDir": func(ex *Exec, a []Value) Value { return ex.tt.Bool(a[0].(*OpaqueVal).x.(*mfileInfo).kind == 1) },
		"Type": func(ex *Exec, a []Value) Value {
			switch a[0].(*OpaqueVal).x.(*mfileInfo).kind {
			case 1:
				return ex.tt.BV(1<<31, 32)
			case 2:
				return ex.tt.BV(1<<27, 32)
			}
			return ex.tt.BV(0, 32)
		},
		"Info": func(ex *Exec, a []Value) Value {
			return TupleVal{&IfaceVal{t: fileInfoType, v: a[0]}, nilErr()}
		},
	}
	intrinsics["os.IsNotExist"] = func(ex *Exec, fn *ssa.Function, a []Value) Value {
		return ex.tt.Bool(ex.errorsIs(a[0].(*IfaceVal), ex.pkgGlobalValue("io/fs", "ErrNotExist").(*IfaceVal), 0))
	}
	intrinsics["os.IsExist"] = func(ex *Exec, fn *ssa.Function, a []Value) Value {
		return ex.tt.Bool(ex.errorsIs(a[0].(*IfaceVal), ex.pkgGlobalValue("io/fs", "ErrExist").(*IfaceVal), 0))
	}
	intrinsics["os.Chdir"] = func(ex *Exec, fn *ssa.Function, a []Value) Value {
		fs := ex.getFS()
		p := ex.concreteString(a[0], "path")
		rp, ok := fs.resolve(p, true, 0)
		if n := fs.nodes[rp]; !ok || n == nil || n.kind != 1 {
			return ex.osErr("notexist", "chdir", p)
		}
		fs.cwd = rp
		return nilErr()
	}
	intrinsics["os.Getwd"] = func(ex *Exec, fn *ssa.Function, a []Value) Value {
		return TupleVal{ex.strConst(ex.getFS().cwd), nilErr()}
	}
	intrinsics["path/filepath.Abs"] = func(ex *Exec, fn *ssa.Function, a []Value) Value {
		return TupleVal{ex.strConst(ex.getFS().clean(ex.concreteString(a[0], "path"))), nilErr()}
	}
	// harness-side access to the model file system
	apiFns["vFSPath"] = func(ex *Exec, fn *ssa.Function, a []Value) Value {
		ex.getFS()
		return ex.strConst("/vfs/" + ex.tagOf(a[0]))
	}
	apiFns["vFSWriteFile"] = func(ex *Exec, fn *ssa.Function, a []Value) Value {
		fs := ex.getFS()
		p := fs.clean(ex.concreteString(a[0], "path"))
		d := a[1].(*SliceVal)
		fs.nodes[p] = &mnode{kind: 0, file: &mfile{data: append([]*Term(nil), ex.sliceBytesOrNil(d)...), id: ex.nextID()}}
		return nil
	}
	apiFns["vFSReadFile"] = func(ex *Exec, fn *ssa.Function, a []Value) Value {
		fs := ex.getFS()
		p, ok := fs.resolve(ex.concreteString(a[0], "path"), true, 0)
		n := fs.nodes[p]
		if !ok || n == nil || n.kind != 0 {
			return TupleVal{&SliceVal{}, ex.tt.False}
		}
		return TupleVal{ex.mkByteSlice(append([]*Term(nil), n.file.data...)), ex.tt.True}
	}
	apiFns["vFSExists"] = func(ex *Exec, fn *ssa.Function, a []Value) Value {
		fs := ex.getFS()
		p, ok := fs.resolve(ex.concreteString(a[0], "path"), false, 0)
		return ex.tt.Bool(ok && fs.nodes[p] != nil)
	}
	apiFns["vFSChdir"] = func(ex *Exec, fn *ssa.Function, a []Value) Value {
		fs := ex.getFS()
		p := ex.concreteString(a[0], "path")
		rp, ok := fs.resolve(p, true, 0)
		if n := fs.nodes[rp]; !ok || n == nil || n.kind != 1 {
			ex.unsupported("vFSChdir: not a directory: " + p)
		}
		fs.cwd = rp
		return nil
	}
	apiFns["vFSMkdir"] = func(ex *Exec, fn *ssa.Function, a []Value) Value {
		fs := ex.getFS()
		fs.nodes[fs.clean(ex.concreteString(a[0], "path"))] = &mnode{kind: 1}
		return nil
	}
	apiFns["vFSSymlink"] = func(ex *Exec, fn *ssa.Function, a []Value) Value {
		fs := ex.getFS()
		fs.nodes[fs.clean(ex.concreteString(a[1], "path"))] = &mnode{kind: 2, target: ex.concreteString(a[0], "target")}
		return nil
	}
	apiFns["vFSMarkFor"] = func(ex *Exec, fn *ssa.Function, a []Value) Value {
		ex.getFS().mark = len(ex.getFS().log)
		return nil
	}
	apiFns["vFSMark"] = func(ex *Exec, fn *ssa.Function, a []Value) Value {
		ex.getFS().mark = len(ex.getFS().log)
		return nil
	}
	// vFSOutsideChanged(dir): did any mutation since vFSMark touch a path outside dir?
	apiFns["vFSOutsideChanged"] = func(ex *Exec, fn *ssa.Function, a []Value) Value {
		fs := ex.getFS()
		dir, _ := fs.resolve(ex.concreteString(a[0], "path"), true, 0)
		for _, w := range fs.log[fs.mark:] {
			if w.path != dir && !strings.HasPrefix(w.path, dir+"/") {
				return ex.tt.True
			}
		}
		return ex.tt.False
	}
	// vFSMutations: number of mutations logged so far (writes, truncates, creations, removals)
	apiFns["vFSMutations"] = func(ex *Exec, fn *ssa.Function, a []Value) Value {
		return ex.intTerm(len(ex.getFS().log))
	}
	// vFSList: sorted list of all paths under the given prefix, as one newline-joined string
	apiFns["vFSList"] = func(ex *Exec, fn *ssa.Function, a []Value) Value {
		fs := ex.getFS()
		pre := fs.clean(ex.concreteString(a[0], "path"))
		var ps []string
		for p, n := range fs.nodes {
			if p == pre || strings.HasPrefix(p, pre+"/") {
				k := "f"
				if n.kind == 1 {
					k = "d"
				} else if n.kind == 2 {
					k = "l:" + n.target
				}
				ps = append(ps, p+" "+k)
			}
		}
		sort.Strings(ps)
		return ex.strConst(strings.Join(ps, "\n"))
	}
}

func (ex *Exec) fsTruncate(p string, f *mfile, sz int) {
	if sz < len(f.data) {
		f.data = f.data[:sz:sz]
	}
	for len(f.data) < sz {
		f.data = append(f.data, ex.tt.BV(0, 8))
	}
	ex.getFS().log = append(ex.getFS().log, fsWrite{path: p, trunc: sz})
}

var _ = fmt.Sprint
