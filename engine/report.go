package main

import (
	"bytes"
	"encoding/json"
	"fmt"
	"os"
	"os/exec"
	"path/filepath"
	"sort"
	"strings"
	"time"
)

type replayCase struct {
	ID      string            `json:"id"`
	Harness string            `json:"harness"`
	Module  string            `json:"module"`
	PkgRel  string            `json:"pkg"`
	Kind    string            `json:"kind"` // violation | known | cover
	Tag     string            `json:"tag"`
	Inputs  map[string]uint64 `json:"inputs"`
	Tier    string            `json:"tier"`
	Race    bool              `json:"race,omitempty"`
	Stress  int               `json:"stress,omitempty"`
}

type replayFile struct {
	Property string       `json:"property"`
	Cases    []replayCase `json:"cases"`
}

// runNative runs the given cases of one package natively and returns the VERIF-REPLAY lines per case id.
func runNative(mod moduleSpec, pkgRel string, cases []replayCase, harnessNames map[string][]string, timeout time.Duration) (map[string][]string, string, error) {
	scratch, err := os.MkdirTemp("", "gosmt-replay")
	if err != nil {
		return nil, "", err
	}
	defer os.RemoveAll(scratch)
	ov, _ := buildOverlay(mod, harnessNames, true, scratch)
	repl := map[string]string{}
	i := 0
	for virt, content := range ov {
		real := filepath.Join(scratch, fmt.Sprintf("f%d_%s", i, filepath.Base(virt)))
		i++
		if err := os.WriteFile(real, content, 0o644); err != nil {
			return nil, "", err
		}
		repl[virt] = real
	}
	ovJSON, _ := json.Marshal(map[string]interface{}{"Replace": repl})
	ovPath := filepath.Join(scratch, "overlay.json")
	os.WriteFile(ovPath, ovJSON, 0o644)
	casesPath := filepath.Join(scratch, "cases.json")
	cj, _ := json.Marshal(replayFile{Cases: cases})
	os.WriteFile(casesPath, cj, 0o644)

	args := []string{"test", "-vet=off", "-count=1", "-overlay", ovPath, "-run", "^TestVerifReplay$", "-timeout", fmt.Sprintf("%ds", int(timeout.Seconds())), "-v"}
	useRace := false
	for _, c := range cases {
		if c.Kind == "violation" && strings.HasPrefix(c.Tag, "no-data-race") || c.Race {
			useRace = true
		}
	}
	if useRace {
		args = append(args, "-race")
	}
	if mod.name == "cmd" {
		args = append(args, "-modfile="+cmdModfile(scratch))
	}
	args = append(args, "./"+pkgRel)
	cmd := exec.Command("go", args...)
	cmd.Dir = mod.dir
	cmd.Env = append(goEnv(), "VERIF_REPLAY="+casesPath)
	if useRace {
		cmd.Env = append(cmd.Env, "CGO_ENABLED=1")
	}
	var out bytes.Buffer
	cmd.Stdout = &out
	cmd.Stderr = &out
	runErr := cmd.Run()
	res := map[string][]string{}
	if useRace && strings.Contains(out.String(), "WARNING: DATA RACE") {
		for _, c := range cases {
			res[c.ID] = append(res[c.ID], "race-detected")
		}
	}
	for _, l := range strings.Split(out.String(), "\n") {
		l = strings.TrimSpace(l)
		if i := strings.Index(l, "VERIF-REPLAY "); i >= 0 {
			rest := l[i+len("VERIF-REPLAY "):]
			parts := strings.SplitN(rest, " ", 2)
			if len(parts) == 2 && strings.HasPrefix(parts[0], "case=") {
				id := parts[0][5:]
				res[id] = append(res[id], parts[1])
			}
		}
	}
	return res, out.String(), runErr
}

func stressOf(v *Violation) int {
	if v == nil {
		return 0
	}
	if v.Kind == "atomicity" || v.Kind == "deadlock" {
		return 3000
	}
	if v.Kind == "race" && v.Stress > 20 {
		return 20 // every round runs under the race detector
	}
	return v.Stress
}

func hasLine(lines []string, prefix string) bool {
	for _, l := range lines {
		if l == prefix || strings.HasPrefix(l, prefix+" ") {
			return true
		}
	}
	return false
}

func finish(prop, tier string, results []*harnessResult, known map[string]bool, doReplay, writeEvidence bool, wall float64, cfg Config) int {
	os.MkdirAll(filepath.Join(verifDir, "evidence", "replay"), 0o755)
	// old replay files of this property are stale
	old, _ := filepath.Glob(filepath.Join(verifDir, "evidence", "replay", prop+"-*.json"))
	for _, f := range old {
		os.Remove(f)
	}

	type pending struct {
		c   replayCase
		v   *Violation
		cov *CoverWitness
		res *harnessResult
	}
	var all []*pending
	byPkg := map[string][]*pending{}
	names := map[string]map[string][]string{} // mod -> pkgRel -> harness names
	for _, r := range results {
		if names[r.ref.mod] == nil {
			names[r.ref.mod] = map[string][]string{}
		}
	}
	for _, ref := range discover("") {
		if names[ref.mod] != nil {
			names[ref.mod][ref.pkgRel] = append(names[ref.mod][ref.pkgRel], ref.name)
		}
	}
	n := 0
	add := func(r *harnessResult, kind, tag string, in map[string]uint64, v *Violation, cw *CoverWitness) {
		n++
		p := &pending{c: replayCase{ID: fmt.Sprintf("%d", n), Harness: r.h.Name, Module: r.ref.mod, PkgRel: r.ref.pkgRel, Kind: kind, Tag: tag, Inputs: in, Tier: tier, Race: v != nil && v.Kind == "race", Stress: stressOf(v)}, v: v, cov: cw, res: r}
		all = append(all, p)
		k := r.ref.mod + "|" + r.ref.pkgRel
		if p.c.Race {
			// one native run per race counterexample: the race detector reports per process
			k += "|race" + p.c.ID
		}
		if v != nil && v.Kind == "deadlock" {
			// a run of its own: the stress rounds are expected to hang
			k += "|deadlock" + p.c.ID
		}
		byPkg[k] = append(byPkg[k], p)
	}
	for _, r := range results {
		seen := map[string]int{}
		// counterexamples from paths without over-approximating models first
		sort.SliceStable(r.h.Violations, func(i, j int) bool { return !r.h.Violations[i].Abstract && r.h.Violations[j].Abstract })
		for _, v := range r.h.Violations {
			if seen["v"+v.Tag] >= 2 {
				continue
			}
			seen["v"+v.Tag]++
			add(r, "violation", v.Tag, v.Inputs, v, nil)
		}
		for _, v := range r.h.Known {
			if seen["k"+v.Region+v.Tag] >= 1 || seen["kr"+v.Region] >= 4 {
				continue
			}
			seen["k"+v.Region+v.Tag]++
			seen["kr"+v.Region]++
			add(r, "known", v.Tag, v.Inputs, v, nil)
		}
		var tags []string
		for t := range r.h.Covers {
			tags = append(tags, t)
		}
		sort.Strings(tags)
		for _, t := range tags {
			add(r, "cover", t, r.h.Covers[t].Inputs, nil, r.h.Covers[t])
		}
	}
	validated := 0
	replayNotes := []string{}
	if doReplay && len(all) > 0 {
		for k, ps := range byPkg {
			parts := strings.SplitN(k, "|", 3)
			var mod moduleSpec
			for _, m := range modules() {
				if m.name == parts[0] {
					mod = m
				}
			}
			var cases []replayCase
			for _, p := range ps {
				cases = append(cases, p.c)
			}
			limit := 300 * time.Second
			if strings.Contains(k, "|deadlock") {
				limit = 45 * time.Second
			}
			out, raw, err := runNative(mod, parts[1], cases, names[mod.name], limit)
			if err != nil && len(out) == 0 && !strings.Contains(k, "|deadlock") {
				replayNotes = append(replayNotes, "native replay run failed for "+k+": "+err.Error()+"\n"+tail(raw, 2000))
			}
			for _, p := range ps {
				lines := out[p.c.ID]
				switch p.c.Kind {
				case "violation", "known":
					ok := false
					if p.v.Kind == "race" {
						ok = hasLine(lines, "race-detected")
					} else if p.v.Kind == "deadlock" {
						// reproduced when the stress rounds hang (the test binary is killed by its
						// deadline or the runtime reports that all goroutines are asleep)
						ok = strings.Contains(raw, "test timed out") || strings.Contains(raw, "all goroutines are asleep")
					} else if p.v.Kind == "atomicity" {
						// schedule-dependent: reproduced when a stress round broke one of the
						// harness's functional assertions
						ok = hasLine(lines, "assert-failed")
					} else if p.v.Kind == "panic" {
						ok = hasLine(lines, "panic")
					} else if strings.HasPrefix(p.v.Tag, "alloc-bounded") {
						ok = hasLine(lines, "assert-failed alloc-bounded")
						for _, l := range lines {
							if strings.Contains(l, "makeslice") || strings.Contains(l, "out of memory") {
								ok = true
							}
						}
					} else {
						ok = hasLine(lines, "assert-failed "+p.v.Tag)
					}
					if ok {
						p.v.Replayed = "reproduced"
						validated++
					} else {
						p.v.Replayed = "not-reproduced: " + strings.Join(lines, " | ")
					}
				case "cover":
					if hasLine(lines, "cover "+p.c.Tag) {
						p.cov.Replayed = "reproduced"
						validated++
					} else {
						p.cov.Replayed = "not-reproduced: " + strings.Join(lines, " | ")
					}
				}
			}
		}
	}

	// ------------------------------------------------------------ verdict
	exit := 0
	var lines []string
	inconclusive := func(msg string) {
		lines = append(lines, "INCONCLUSIVE property="+prop+" "+msg)
		if exit == 0 {
			exit = 3
		}
	}
	nviol := 0
	knownPrinted := map[string]bool{}
	for _, p := range all {
		switch p.c.Kind {
		case "violation":
			path := filepath.Join(verifDir, "evidence", "replay", fmt.Sprintf("%s-%s-%s.json", prop, p.c.Harness, p.c.ID))
			b, _ := json.MarshalIndent(replayFile{Property: prop, Cases: []replayCase{p.c}}, "", " ")
			os.WriteFile(path, b, 0o644)
			if !doReplay || p.v.Replayed == "reproduced" {
				lines = append(lines, fmt.Sprintf("VIOLATION property=%s replay=%s harness=%s tag=%s kind=%s %s", prop, path, p.c.Harness, p.v.Tag, p.v.Kind, p.v.Msg))
				exit = 1
				nviol++
			} else if p.v.Kind == "atomicity" {
				// conflict-serializability is sufficient for linearizability, not necessary: a
				// non-serializable pair whose stress replays never broke a functional assertion is
				// reported for the reader and decides nothing (the schedule exploration with the
				// functional oracle does)
				lines = append(lines, fmt.Sprintf("NOTE property=%s harness=%s %s: %s (no functional assertion failed in %d native stress rounds)", prop, p.c.Harness, p.v.Tag, p.v.Msg, p.c.Stress))
			} else {
				inconclusive(fmt.Sprintf("counterexample for %s/%s did not reproduce natively (%s); model at %s", p.c.Harness, p.v.Tag, p.v.Replayed, path))
			}
		case "known":
			// handled below: one reproduced counterexample per region suffices
		}
	}
	knownRepro := map[string]*pending{}
	knownAny := map[string]*pending{}
	for _, p := range all {
		if p.c.Kind != "known" {
			continue
		}
		if knownAny[p.v.Region] == nil {
			knownAny[p.v.Region] = p
		}
		if (!doReplay || p.v.Replayed == "reproduced") && knownRepro[p.v.Region] == nil {
			knownRepro[p.v.Region] = p
		}
	}
	for region, p := range knownAny {
		if q := knownRepro[region]; q != nil {
			lines = append(lines, fmt.Sprintf("KNOWN-FINDING: property=%s %s %s (harness %s, assertion %s)", prop, strings.SplitN(region, "/", 2)[1], knownDescription(region), q.c.Harness, q.v.Tag))
		} else {
			inconclusive(fmt.Sprintf("known-finding counterexample %s in %s/%s did not reproduce natively (%s)", region, p.c.Harness, p.v.Tag, p.v.Replayed))
		}
	}
	_ = knownPrinted
	states, transitions, obligations, discharged, queries := 0, int64(0), 0, 0, 0
	var solverTime float64
	funcs := map[string]bool{}
	stubs := map[string]bool{}
	notes := map[string]bool{}
	var samples []interface{}
	coverTotal, coverReached, coverValidated := 0, 0, 0
	perHarness := []map[string]interface{}{}
	for _, r := range results {
		h := r.h
		states += h.Paths
		transitions += h.Steps
		obligations += h.Obligations
		discharged += h.Discharged
		queries += h.Queries
		solverTime += h.SolverTime.Seconds()
		for f := range h.Funcs {
			funcs[f] = true
		}
		for s := range h.Stubs {
			stubs[s] = true
		}
		for s := range h.Notes {
			notes[s] = true
		}
		var ikeys []string
		for k := range h.Inconcl {
			ikeys = append(ikeys, k)
		}
		sort.Strings(ikeys)
		for _, k := range ikeys {
			inconclusive(fmt.Sprintf("harness=%s x%d %s", h.Name, h.Inconcl[k], firstLine(k)))
		}
		var unreached []string
		for t := range h.CoverTags {
			coverTotal++
			if cw, ok := h.Covers[t]; ok {
				coverReached++
				if cw.Replayed == "reproduced" {
					coverValidated++
				} else if doReplay && !cw.Abstract && strings.HasPrefix(cw.Replayed, "not-reproduced") {
					// the native build does not reach what the encoding reaches: translation mismatch
					inconclusive(fmt.Sprintf("harness=%s cover witness %q did not reproduce natively: %s", h.Name, t, firstLine(cw.Replayed)))
				}
			} else {
				unreached = append(unreached, t)
			}
		}
		sort.Strings(unreached)
		for _, t := range unreached {
			inconclusive(fmt.Sprintf("harness=%s cover witness %q is unreachable (vacuity guard)", h.Name, t))
		}
		if h.Paths == 0 || h.EndKinds["done"]+h.EndKinds["stop"]+h.EndKinds["panic"] == 0 {
			inconclusive(fmt.Sprintf("harness=%s no path reached the end of the harness (vacuous)", h.Name))
		}
		for i, s := range h.Samples {
			if i < 2 {
				samples = append(samples, map[string]interface{}{"harness": h.Name, "path": s})
			}
		}
		for t, cw := range h.Covers {
			if len(samples) < 40 {
				samples = append(samples, map[string]interface{}{"harness": h.Name, "cover": t, "model": cw.Inputs, "native": cw.Replayed})
			}
		}
		perHarness = append(perHarness, map[string]interface{}{
			"harness": h.Name, "module": r.ref.mod, "package": r.ref.pkgRel, "paths": h.Paths, "ssa_instructions": h.Steps,
			"obligations": h.Obligations, "discharged_unsat": h.Discharged, "queries": h.Queries,
			"solver_time_s": round2(h.SolverTime.Seconds()), "wall_s": round2(r.wall), "path_ends": h.EndKinds,
			"violations": len(h.Violations), "known_findings": len(h.Known), "alloc_checks": h.AllocChecks,
		})
	}
	if coverReached > 0 && doReplay && coverValidated == 0 {
		inconclusive("no cover witness reproduced natively (translation validation failed)")
	}
	for _, nte := range replayNotes {
		inconclusive(firstLine(nte))
		fmt.Fprintln(os.Stderr, nte)
	}
	sort.Strings(lines)
	for _, l := range lines {
		fmt.Println(l)
	}
	if exit == 0 {
		fmt.Printf("OK property=%s tier=%s harnesses=%d paths=%d obligations=%d discharged=%d covers=%d/%d validated=%d queries=%d solver=%.1fs wall=%.1fs\n",
			prop, tier, len(results), states, obligations, discharged, coverReached, coverTotal, validated, queries, solverTime, wall)
	}
	if writeEvidence {
		if len(samples) == 0 {
			samples = append(samples, "no completed path")
		}
		assumptions := []string{
			"bounded symbolic execution of go/ssa: loops unrolled per path (bound " + fmt.Sprint(cfg.maxLoop) + " visits per loop head and call frame), paths exceeding a bound are reported as INCONCLUSIVE, never as success",
			"solver z3 4.8.12 via SMT-LIB2 (QF_BV + UF terms, no set-logic); unknown/timeout/(error) answers are INCONCLUSIVE",
			"memory model: concrete shape, symbolic content; symbolic sizes/indices are case-split over all feasible values (bounded)",
		}
		for _, s := range sortedKeys(stubs) {
			assumptions = append(assumptions, "model/stub used: "+s)
		}
		for _, s := range sortedKeys(notes) {
			assumptions = append(assumptions, "note: "+s)
		}
		fl := sortedKeys(funcs)
		var own []string
		for _, f := range fl {
			if strings.Contains(f, "go-car") && !strings.Contains(f, "VerifH_") {
				own = append(own, f)
			}
		}
		ev := map[string]interface{}{
			"property_id": prop,
			"tier":        tier,
			"seed":        seedFromEnv(),
			"level":       "model_checking",
			"coverage": map[string]interface{}{
				"states":                        max1(states),
				"transitions":                   max1(int(transitions)),
				"traces_validated_against_impl": validated,
				"samples":                       samples,
				"obligations":                   obligations,
				"discharged":                    discharged,
				"exhaustive":                    exit == 0,
				"explanation":                   "states = symbolic paths explored to completion (each a set of concrete executions described by a path condition); transitions = SSA instructions executed symbolically; obligations = vAssert/alloc/panic obligations sent to the solver as path ∧ ¬property; traces_validated = cover-witness / counterexample models replayed against the native build with the same harness source",
				"functions_encoded":             own,
				"functions_encoded_total":       len(fl),
				"queries":                       queries,
				"solver_time_s":                 round2(solverTime),
				"cover_witnesses":               map[string]int{"declared": coverTotal, "reached": coverReached, "reproduced_natively": coverValidated},
				"harnesses":                     perHarness,
				"bounds":                        map[string]interface{}{"loop_visits_per_frame": cfg.maxLoop, "ssa_steps_per_path": cfg.maxSteps, "call_depth": cfg.maxDepth, "case_split_values": cfg.maxConcretize, "solver_timeout_ms": cfg.timeoutMs},
				"verdict_lines":                 lines,
			},
			"assumptions": assumptions,
			"wall_s":      round2(wall),
			"violations":  nviol,
		}
		b, _ := json.MarshalIndent(ev, "", " ")
		os.WriteFile(filepath.Join(verifDir, "evidence", prop+".json"), b, 0o644)
	}
	return exit
}

func max1(n int) int {
	if n < 1 {
		return 1
	}
	return n
}

func round2(f float64) float64 { return float64(int(f*100)) / 100 }

func seedFromEnv() int {
	var s int
	fmt.Sscanf(os.Getenv("VERIF_SEED"), "%d", &s)
	return s
}

func firstLine(s string) string {
	if i := strings.IndexByte(s, '\n'); i >= 0 {
		s = s[:i]
	}
	if len(s) > 400 {
		s = s[:400] + "…"
	}
	return s
}

func tail(s string, n int) string {
	if len(s) > n {
		return s[len(s)-n:]
	}
	return s
}

func cmdReplay(args []string) int {
	if len(args) < 1 {
		fatal("usage: gosmt replay <file>")
	}
	b, err := os.ReadFile(args[0])
	if err != nil {
		fatal(err.Error())
	}
	var rf replayFile
	if err := json.Unmarshal(b, &rf); err != nil {
		fatal(err.Error())
	}
	rc := 0
	for _, c := range rf.Cases {
		var mod moduleSpec
		for _, m := range modules() {
			if m.name == c.Module {
				mod = m
			}
		}
		names := map[string][]string{}
		for _, ref := range discover("") {
			if ref.mod == c.Module {
				names[ref.pkgRel] = append(names[ref.pkgRel], ref.name)
			}
		}
		os.Setenv("VERIF_TIER", c.Tier)
		out, raw, err := runNative(mod, c.PkgRel, []replayCase{c}, names, 300*time.Second)
		for _, l := range out[c.ID] {
			fmt.Println("VERIF-REPLAY", l)
		}
		if len(out[c.ID]) == 0 || os.Getenv("VERIF_DEBUG") != "" {
			fmt.Println(tail(raw, 3000))
			if err != nil {
				fmt.Println("error:", err)
			}
		}
		if hasLine(out[c.ID], "assert-failed") || hasLine(out[c.ID], "panic") {
			rc = 1
		}
	}
	return rc
}
