package main

// Cooperative goroutines for the program under test: each SSA goroutine runs on its own host
// goroutine, exactly one of which holds the baton at any time.

import (
	"go/types"
	"sync"

	"golang.org/x/tools/go/ssa"
)

type gor struct {
	id      int
	frame   *Frame
	wake    chan struct{}
	done    bool
	blocked bool
	recvVal Value
	recvOK  bool
	sendPanic bool
	spins   int
}

type waitingSend struct {
	g *gor
	v Value
}

type abortSignal struct{}

type scheduler struct {
	gs       []*gor
	main     *gor
	aborting bool
	abortVal interface{}
	wg       sync.WaitGroup
}

func (ex *Exec) newScheduler() {
	s := &scheduler{}
	m := &gor{id: 0, wake: make(chan struct{}, 1)}
	s.gs = []*gor{m}
	s.main = m
	ex.sched = s
	ex.curG = m
}

// cleanup releases all parked goroutines at the end of a path.
func (ex *Exec) cleanupGoroutines() {
	s := ex.sched
	s.aborting = true
	for _, g := range s.gs {
		if g != s.main && !g.done {
			select {
			case g.wake <- struct{}{}:
			default:
			}
		}
	}
	s.wg.Wait()
}

func (ex *Exec) spawn(fv Value, args []Value, site *ssa.CallCommon) {
	s := ex.sched
	g := &gor{id: len(s.gs), wake: make(chan struct{}, 1)}
	s.gs = append(s.gs, g)
	ex.noteSpawn(g)
	s.wg.Add(1)
	go func() {
		defer s.wg.Done()
		<-g.wake
		if s.aborting {
			g.done = true
			return
		}
		defer func() {
			r := recover()
			g.done = true
			if _, isAbort := r.(abortSignal); isAbort || s.aborting {
				return
			}
			if r != nil {
				// path-ending condition or uncaught Go panic inside a spawned goroutine:
				// hand it to the main goroutine, which re-raises it.
				s.abortVal = r
				s.aborting = true
				ex.curG = s.main
				s.main.wake <- struct{}{}
				return
			}
			ex.noteExit(g)
			// normal exit: pass the baton on
			n := ex.pickRunnable(g)
			if n == nil {
				s.abortVal = pathEnd{kind: "deadlock", msg: "all goroutines blocked after exit of a goroutine"}
				s.aborting = true
				ex.curG = s.main
				s.main.wake <- struct{}{}
				return
			}
			ex.curG = n
			n.wake <- struct{}{}
		}()
		ex.callValue(fv, args, site)
	}()
}

func (ex *Exec) pickRunnable(except *gor) *gor {
	for _, g := range ex.sched.gs {
		if g != except && !g.done && !g.blocked {
			return g
		}
	}
	return nil
}

// switchAway parks the current goroutine and runs another runnable one.
// The caller must have set g.blocked if it is to stay parked until unblocked.
func (ex *Exec) switchAway() {
	g := ex.curG
	n := ex.pickRunnable(g)
	if n == nil {
		if !g.blocked {
			return // nothing else to run; continue
		}
		panic(pathEnd{kind: "deadlock", msg: "all goroutines are blocked"})
	}
	ex.switchTo(n)
}

// switchTo hands the baton to n and parks the current goroutine until it is woken again.
func (ex *Exec) switchTo(n *gor) {
	s := ex.sched
	g := ex.curG
	ex.curG = n
	n.wake <- struct{}{}
	<-g.wake
	if s.aborting {
		if g == s.main && s.abortVal != nil {
			v := s.abortVal
			s.abortVal = nil
			panic(v)
		}
		panic(abortSignal{})
	}
	ex.curG = g
}

// block parks until some other goroutine clears g.blocked and the scheduler picks g again.
func (ex *Exec) block() {
	g := ex.curG
	g.blocked = true
	for g.blocked {
		ex.switchAway()
	}
}

func (ex *Exec) yield() {
	g := ex.curG
	g.spins++
	if g.spins > 2000 {
		panic(pathEnd{kind: "deadlock", msg: "goroutine spinning without progress (select)"})
	}
	if ex.pickRunnable(g) == nil {
		panic(pathEnd{kind: "deadlock", msg: "select can never proceed"})
	}
	ex.switchAway()
}

// ---------------------------------------------------------------- channels

func (ex *Exec) chanSend(ch *ChanVal, v Value) {
	if ch == nil {
		ex.block()
	}
	if ch.closed {
		ex.goPanicStr("send on closed channel")
	}
	ex.noteChan(ch, "send")
	if len(ch.recvq) > 0 {
		r := ch.recvq[0]
		ch.recvq = ch.recvq[1:]
		r.recvVal, r.recvOK = v, true
		r.blocked = false
		return
	}
	if len(ch.buf) < ch.cap {
		ch.buf = append(ch.buf, v)
		return
	}
	g := ex.curG
	ch.sendq = append(ch.sendq, &waitingSend{g: g, v: v})
	ex.block()
	if g.sendPanic {
		g.sendPanic = false
		ex.goPanicStr("send on closed channel")
	}
}

func (ex *Exec) chanRecvReady(ch *ChanVal) bool {
	return ch != nil && (len(ch.buf) > 0 || len(ch.sendq) > 0 || ch.closed)
}

func (ex *Exec) chanSendReady(ch *ChanVal) bool {
	return ch != nil && (ch.closed || len(ch.recvq) > 0 || len(ch.buf) < ch.cap)
}

func (ex *Exec) chanRecv(ch *ChanVal) (Value, bool) {
	if ch == nil {
		ex.block()
	}
	ex.noteChan(ch, "recv")
	if len(ch.buf) > 0 {
		v := ch.buf[0]
		ch.buf = ch.buf[1:]
		if len(ch.sendq) > 0 {
			s := ch.sendq[0]
			ch.sendq = ch.sendq[1:]
			ch.buf = append(ch.buf, s.v)
			s.g.blocked = false
		}
		return v, true
	}
	if len(ch.sendq) > 0 {
		s := ch.sendq[0]
		ch.sendq = ch.sendq[1:]
		s.g.blocked = false
		return s.v, true
	}
	if ch.closed {
		return ex.zero(ch.et), false
	}
	g := ex.curG
	ch.recvq = append(ch.recvq, g)
	ex.block()
	return g.recvVal, g.recvOK
}

func (ex *Exec) chanClose(ch *ChanVal) {
	if ch == nil {
		ex.goPanicStr("close of nil channel")
	}
	if ch.closed {
		ex.goPanicStr("close of closed channel")
	}
	ex.noteChan(ch, "close")
	ch.closed = true
	for _, r := range ch.recvq {
		r.recvVal, r.recvOK = ex.zero(ch.et), false
		r.blocked = false
	}
	ch.recvq = nil
	for _, s := range ch.sendq {
		s.g.sendPanic = true
		s.g.blocked = false
	}
	ch.sendq = nil
}

func (ex *Exec) selectOp(fr *Frame, x *ssa.Select) Value {
	tt := ex.tt
	type st struct {
		ch   *ChanVal
		send Value
		dir  int
	}
	states := make([]st, len(x.States))
	for i, s := range x.States {
		ch, _ := ex.get(fr, s.Chan).(*ChanVal)
		states[i] = st{ch: ch}
		if s.Send != nil {
			states[i].send = ex.get(fr, s.Send)
			states[i].dir = 1
		}
	}
	nrecv := 0
	for _, s := range x.States {
		if s.Send == nil {
			nrecv++
		}
	}
	mk := func(idx int, recvOK bool, recvd Value, which int) Value {
		tv := TupleVal{ex.intTerm(idx), tt.Bool(recvOK)}
		for i, s := range x.States {
			if s.Send == nil {
				if i == which {
					tv = append(tv, recvd)
				} else {
					tv = append(tv, ex.zero(s.Chan.Type().Underlying().(*types.Chan).Elem()))
				}
			}
		}
		return tv
	}
	for {
		for i, s := range states {
			if s.dir == 1 {
				if ex.chanSendReady(s.ch) {
					ex.chanSend(s.ch, s.send)
					return mk(i, false, nil, -1)
				}
			} else if ex.chanRecvReady(s.ch) {
				v, ok := ex.chanRecv(s.ch)
				return mk(i, ok, v, i)
			}
		}
		if !x.Blocking {
			return mk(-1, false, nil, -1)
		}
		ex.yield()
	}
}
