package main

// A long-lived SMT solver process (z3 -in, z3-new -in, cvc5 --incremental) spoken to in SMT-LIB2.
// Term definitions are emitted once at level 0 as define-fun; queries are push/assert/check-sat/pop.

import (
	"bufio"
	"fmt"
	"io"
	"os"
	"os/exec"
	"strconv"
	"strings"
	"time"
)

var profQueries = os.Getenv("GOSMT_PROF") != ""

type SatResult int

const (
	Unsat SatResult = iota
	Sat
	Unknown
)

func (r SatResult) String() string {
	return [...]string{"unsat", "sat", "unknown"}[r]
}

type Solver struct {
	kind      string // z3 | z3-new | cvc5
	cmd       *exec.Cmd
	in        io.WriteCloser
	out       *bufio.Reader
	tt        *TermTable
	emitted   map[int32]bool
	declared  map[string]bool
	timeoutMs int
	Queries   int
	Time      time.Duration
	log       io.Writer
	nDefs     int
	errors    int
}

func NewSolver(kind string, tt *TermTable, timeoutMs int) (*Solver, error) {
	s := &Solver{kind: kind, tt: tt, timeoutMs: timeoutMs}
	if err := s.start(); err != nil {
		return nil, err
	}
	return s, nil
}

func (s *Solver) start() error {
	var cmd *exec.Cmd
	switch s.kind {
	case "z3":
		cmd = exec.Command("z3", "-in", "-smt2")
	case "z3-new":
		cmd = exec.Command("z3-new", "-in", "-smt2")
	case "cvc5":
		cmd = exec.Command("cvc5", "--incremental", "--lang=smt2", "--produce-models", fmt.Sprintf("--tlimit-per=%d", s.timeoutMs))
	default:
		return fmt.Errorf("unknown solver %q", s.kind)
	}
	in, err := cmd.StdinPipe()
	if err != nil {
		return err
	}
	out, err := cmd.StdoutPipe()
	if err != nil {
		return err
	}
	cmd.Stderr = os.Stderr
	if err := cmd.Start(); err != nil {
		return err
	}
	s.cmd, s.in, s.out = cmd, in, bufio.NewReaderSize(out, 1<<16)
	if lf := os.Getenv("GOSMT_LOG"); lf != "" {
		f, _ := os.OpenFile(lf, os.O_CREATE|os.O_WRONLY|os.O_APPEND, 0o644)
		s.log = f
	}
	s.emitted = map[int32]bool{}
	s.declared = map[string]bool{}
	s.nDefs = 0
	if s.kind == "cvc5" {
		s.send("(set-logic ALL)\n")
	} else {
		s.send(fmt.Sprintf("(set-option :timeout %d)\n", s.timeoutMs))
	}
	s.send("(set-option :produce-models true)\n")
	return nil
}

func (s *Solver) Close() {
	if s.cmd != nil {
		s.in.Close()
		s.cmd.Process.Kill()
		s.cmd.Wait()
		s.cmd = nil
	}
}

func (s *Solver) Restart() {
	s.Close()
	if err := s.start(); err != nil {
		panic(err)
	}
}

func (s *Solver) send(str string) {
	if s.log != nil {
		io.WriteString(s.log, str)
	}
	if _, err := io.WriteString(s.in, str); err != nil {
		panic(engineError{"solver write: " + err.Error()})
	}
}

func (s *Solver) readLine() string {
	line, err := s.out.ReadString('\n')
	if err != nil {
		panic(engineError{"solver read: " + err.Error()})
	}
	return strings.TrimSpace(line)
}

// define emits define-fun for t and all its descendants not yet emitted. Must be at depth 0
// of definitions: z3 keeps define-fun made inside a push only until the matching pop, so
// definitions are tracked per push level.
func (s *Solver) ref(t *Term) string {
	if t.op == OpConst {
		return smtConst(t)
	}
	if t.op == OpVar {
		if !s.declared[t.name] {
			s.declared[t.name] = true
			s.send(fmt.Sprintf("(declare-const %s %s)\n", smtVarName(t.name), sortName(t.w)))
		}
		return smtVarName(t.name)
	}
	if s.emitted[t.id] {
		return "t" + strconv.Itoa(int(t.id))
	}
	// iterative post-order to avoid deep recursion
	type fr struct {
		t *Term
		i int
	}
	stack := []fr{{t, 0}}
	for len(stack) > 0 {
		f := &stack[len(stack)-1]
		x := f.t
		kids := children(x)
		if f.i < len(kids) {
			k := kids[f.i]
			f.i++
			if k.op == OpConst || s.emitted[k.id] {
				continue
			}
			if k.op == OpVar {
				s.ref(k)
				continue
			}
			stack = append(stack, fr{k, 0})
			continue
		}
		stack = stack[:len(stack)-1]
		if s.emitted[x.id] {
			continue
		}
		if x.op == OpUF {
			if !s.declared["uf:"+x.name] {
				s.declared["uf:"+x.name] = true
				var sb strings.Builder
				fmt.Fprintf(&sb, "(declare-fun |%s| (", x.name)
				for _, a := range x.args {
					sb.WriteString(sortName(a.w))
					sb.WriteByte(' ')
				}
				fmt.Fprintf(&sb, ") %s)\n", sortName(x.w))
				s.send(sb.String())
			}
		}
		body := x.smtBody(func(y *Term) string {
			if y.op == OpConst {
				return smtConst(y)
			}
			if y.op == OpVar {
				return smtVarName(y.name)
			}
			return "t" + strconv.Itoa(int(y.id))
		})
		s.send(fmt.Sprintf("(define-fun t%d () %s %s)\n", x.id, sortName(x.w), body))
		s.emitted[x.id] = true
		s.nDefs++
	}
	return "t" + strconv.Itoa(int(t.id))
}

func children(t *Term) []*Term {
	if t.op == OpUF {
		return t.args
	}
	var r []*Term
	if t.a != nil {
		r = append(r, t.a)
	}
	if t.b != nil {
		r = append(r, t.b)
	}
	if t.c != nil {
		r = append(r, t.c)
	}
	return r
}


// Check decides satisfiability of the conjunction of conds. When wantModel is set and the answer
// is sat, the values of vars (and of the UF applications in ufApps) are returned.
var tacticMode = os.Getenv("GOSMT_TACTIC")

func (s *Solver) Check(conds []*Term, wantModel bool, vars []*Term, ufApps []*Term) (res SatResult, model *Model) {
	start := time.Now()
	defer func() {
		d := time.Since(start)
		s.Time += d
		s.Queries++
		if profQueries && d > 200*time.Millisecond {
			fmt.Fprintf(os.Stderr, "slow query %.0fms conds=%d model=%v defs=%d res=%v\n", d.Seconds()*1000, len(conds), wantModel, s.nDefs, res)
			if d > 200*time.Millisecond {
				for _, c := range conds {
					fmt.Fprintf(os.Stderr, "    %s\n", c.String())
				}
			}
		}
	}()
	if s.nDefs > 400000 {
		s.Restart()
	}
	names := make([]string, 0, len(conds))
	for _, c := range conds {
		if c.IsTrue() {
			continue
		}
		if c.IsFalse() {
			return Unsat, nil
		}
		names = append(names, s.ref(c))
	}
	var vnames []string
	if wantModel {
		for _, v := range vars {
			vnames = append(vnames, s.ref(v))
		}
		for _, u := range ufApps {
			vnames = append(vnames, s.ref(u))
		}
	}
	var sb strings.Builder
	sb.WriteString("(push 1)\n")
	for _, n := range names {
		sb.WriteString("(assert ")
		sb.WriteString(n)
		sb.WriteString(")\n")
	}
	// Pure bit-vector queries go through z3's qfbv tactic (simplify, bit-blast, SAT): inside a
	// long-lived incremental context the default solver is several times slower on the ordering
	// problems of the race encoding. Anything but sat/unsat from the tactic falls back to check-sat.
	pure := tacticMode != "off"
	for _, c := range conds {
		if c.hasUF {
			pure = false
		}
	}
	if pure {
		s.send(sb.String() + "(check-sat-using qfbv)\n")
	} else if tacticMode == "uf" {
		pure = true
		s.send(sb.String() + "(check-sat-using qfufbv)\n")
	} else {
		s.send(sb.String() + "(check-sat)\n")
	}
	ans := s.readAnswer()
	if pure && ans != "sat" && ans != "unsat" {
		s.send("(check-sat)\n")
		ans = s.readAnswer()
	}
	switch ans {
	case "sat":
		res = Sat
	case "unsat":
		res = Unsat
	default:
		res = Unknown
	}
	if res == Sat && wantModel && len(vnames) > 0 {
		model = &Model{vals: map[string]uint64{}, ufs: map[string]map[string]uint64{}, ufDefault: map[string]uint64{}}
		// ask in chunks
		all := append(append([]*Term{}, vars...), ufApps...)
		const chunk = 200
		for i := 0; i < len(all); i += chunk {
			j := i + chunk
			if j > len(all) {
				j = len(all)
			}
			s.send("(get-value (" + strings.Join(vnames[i:j], " ") + "))\n")
			txt := s.readSexp()
			vals := parseGetValue(txt)
			if len(vals) != j-i {
				s.errors++
				res = Unknown
				model = nil
				break
			}
			for k, v := range vals {
				t := all[i+k]
				if t.op == OpVar {
					model.vals[t.name] = v
				} else {
					model.vals[fmt.Sprintf("#t%d", t.id)] = v
				}
			}
		}
	}
	s.send("(pop 1)\n")
	return res, model
}

// readAnswer reads lines until sat/unsat/unknown; an (error ...) line makes the answer unknown.
func (s *Solver) readAnswer() string {
	sawErr := false
	for {
		l := s.readLine()
		switch {
		case l == "sat" || l == "unsat" || l == "unknown":
			if sawErr {
				return "unknown"
			}
			return l
		case strings.HasPrefix(l, "(error"):
			sawErr = true
			s.errors++
			fmt.Fprintln(os.Stderr, "solver error:", l)
		case l == "" || l == "success":
		case strings.Contains(l, "timeout") || strings.Contains(l, "interrupted"):
			return "unknown"
		default:
			fmt.Fprintln(os.Stderr, "solver said:", l)
		}
	}
}

// readSexp reads one balanced s-expression from the solver.
func (s *Solver) readSexp() string {
	var sb strings.Builder
	depth := 0
	started := false
	inBar := false
	for {
		b, err := s.out.ReadByte()
		if err != nil {
			panic(engineError{"solver read: " + err.Error()})
		}
		sb.WriteByte(b)
		if inBar {
			if b == '|' {
				inBar = false
			}
			continue
		}
		switch b {
		case '|':
			inBar = true
		case '(':
			depth++
			started = true
		case ')':
			depth--
		}
		if started && depth == 0 {
			return sb.String()
		}
	}
}

// parseGetValue extracts, in order, the values from ((name val) (name val) ...).
// Values are #x.., #b.., (_ bvN w), true, false.
func parseGetValue(txt string) []uint64 {
	var vals []uint64
	toks := tokenize(txt)
	// structure: ( ( name value ) ... ) ; name may itself be a compound term, so track depth
	i := 0
	depth := 0
	for i < len(toks) {
		t := toks[i]
		if t == "(" {
			depth++
			if depth == 2 {
				// parse name sexp
				i++
				i = skipSexp(toks, i)
				// parse value
				v, ni := parseValue(toks, i)
				vals = append(vals, v)
				i = ni
				continue
			}
		} else if t == ")" {
			depth--
		}
		i++
	}
	return vals
}

func tokenize(s string) []string {
	var toks []string
	i := 0
	for i < len(s) {
		c := s[i]
		switch {
		case c == '(' || c == ')':
			toks = append(toks, string(c))
			i++
		case c == ' ' || c == '\n' || c == '\t' || c == '\r':
			i++
		case c == '|':
			j := i + 1
			for j < len(s) && s[j] != '|' {
				j++
			}
			toks = append(toks, s[i:j+1])
			i = j + 1
		default:
			j := i
			for j < len(s) && !strings.ContainsRune("() \n\t\r", rune(s[j])) {
				j++
			}
			toks = append(toks, s[i:j])
			i = j
		}
	}
	return toks
}

func skipSexp(toks []string, i int) int {
	if toks[i] != "(" {
		return i + 1
	}
	d := 0
	for {
		if toks[i] == "(" {
			d++
		} else if toks[i] == ")" {
			d--
		}
		i++
		if d == 0 {
			return i
		}
	}
}

func parseValue(toks []string, i int) (uint64, int) {
	t := toks[i]
	switch {
	case t == "true":
		return 1, i + 1
	case t == "false":
		return 0, i + 1
	case strings.HasPrefix(t, "#x"):
		v, _ := strconv.ParseUint(t[2:], 16, 64)
		return v, i + 1
	case strings.HasPrefix(t, "#b"):
		v, _ := strconv.ParseUint(t[2:], 2, 64)
		return v, i + 1
	case t == "(":
		// (_ bvN w)
		if toks[i+1] == "_" && strings.HasPrefix(toks[i+2], "bv") {
			v, _ := strconv.ParseUint(toks[i+2][2:], 10, 64)
			return v, skipSexp(toks, i)
		}
		return 0, skipSexp(toks, i)
	}
	return 0, i + 1
}
