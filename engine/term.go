package main

// Hash-consed SMT terms (bit-vectors and booleans) with eager simplification.
// Every worker owns one TermTable; terms of different tables never mix.

import (
	"fmt"
	"math/bits"
	"strings"
)

type Op uint8

const (
	OpConst Op = iota // BV constant (w>0) or Bool constant (w==0)
	OpVar
	OpAdd
	OpSub
	OpMul
	OpUDiv
	OpURem
	OpSDiv
	OpSRem
	OpAnd
	OpOr
	OpXor
	OpShl
	OpLShr
	OpAShr
	OpNot  // bvnot
	OpNeg  // bvneg
	OpConcat
	OpExtract // val = hi<<16|lo
	OpZExt
	OpSExt
	OpIte
	OpEq
	OpUlt
	OpUle
	OpSlt
	OpSle
	OpBAnd
	OpBOr
	OpBNot
	OpUF // uninterpreted function application: name, args
)

var opNames = map[Op]string{
	OpAdd: "bvadd", OpSub: "bvsub", OpMul: "bvmul", OpUDiv: "bvudiv", OpURem: "bvurem",
	OpSDiv: "bvsdiv", OpSRem: "bvsrem", OpAnd: "bvand", OpOr: "bvor", OpXor: "bvxor",
	OpShl: "bvshl", OpLShr: "bvlshr", OpAShr: "bvashr", OpNot: "bvnot", OpNeg: "bvneg",
	OpConcat: "concat", OpIte: "ite", OpEq: "=", OpUlt: "bvult", OpUle: "bvule",
	OpSlt: "bvslt", OpSle: "bvsle", OpBAnd: "and", OpBOr: "or", OpBNot: "not",
}

type Term struct {
	id   int32
	op   Op
	w    uint16 // bit width; 0 = Bool
	val  uint64
	a    *Term
	b    *Term
	c    *Term
	name string
	args []*Term
	hasUF bool
	vset  []int32
	ctSize int32 // >0: term is an ite-tree whose leaves are constants (number of leaves)
	vsetDone bool
}

type termKey struct {
	op      Op
	w       uint16
	val     uint64
	a, b, c int32
	name    string
}

type TermTable struct {
	tab   map[termKey]*Term
	all   []*Term
	True  *Term
	False *Term
	vars  map[string]*Term
	ufs   map[string]ufSig
	ufIDs map[string]int32
}

type ufSig struct {
	argw []uint16
	resw uint16
}

func NewTermTable() *TermTable {
	tt := &TermTable{tab: map[termKey]*Term{}, vars: map[string]*Term{}, ufs: map[string]ufSig{}}
	tt.True = tt.mk(termKey{op: OpConst, w: 0, val: 1}, nil, nil, nil, nil)
	tt.False = tt.mk(termKey{op: OpConst, w: 0, val: 0}, nil, nil, nil, nil)
	return tt
}

func tid(t *Term) int32 {
	if t == nil {
		return -1
	}
	return t.id
}

func (tt *TermTable) mk(k termKey, a, b, c *Term, args []*Term) *Term {
	k.a, k.b, k.c = tid(a), tid(b), tid(c)
	if args != nil {
		var sb strings.Builder
		sb.WriteString(k.name)
		for _, x := range args {
			fmt.Fprintf(&sb, ",%d", x.id)
		}
		k.name = sb.String()
	}
	if t, ok := tt.tab[k]; ok {
		return t
	}
	name := k.name
	if args != nil {
		name = name[:strings.IndexByte(name+",", ',')]
	}
	t := &Term{id: int32(len(tt.all)), op: k.op, w: k.w, val: k.val, a: a, b: b, c: c, name: name, args: args}
	if k.op == OpUF {
		t.hasUF = true
	}
	if k.op == OpConst {
		t.ctSize = 1
	} else if k.op == OpIte && b.ctSize > 0 && c.ctSize > 0 && b.ctSize+c.ctSize <= 160 {
		t.ctSize = b.ctSize + c.ctSize
	}
	for _, x := range []*Term{a, b, c} {
		if x != nil && x.hasUF {
			t.hasUF = true
		}
	}
	for _, x := range args {
		if x.hasUF {
			t.hasUF = true
		}
	}
	tt.tab[k] = t
	tt.all = append(tt.all, t)
	return t
}

func mask(w uint16) uint64 {
	if w >= 64 {
		return ^uint64(0)
	}
	return (uint64(1) << w) - 1
}

func (t *Term) IsConst() bool { return t.op == OpConst }
func (t *Term) IsBool() bool  { return t.w == 0 }
func (t *Term) IsTrue() bool  { return t.op == OpConst && t.w == 0 && t.val == 1 }
func (t *Term) IsFalse() bool { return t.op == OpConst && t.w == 0 && t.val == 0 }

func (tt *TermTable) BV(v uint64, w uint16) *Term {
	if w == 0 {
		panic("BV with width 0")
	}
	return tt.mk(termKey{op: OpConst, w: w, val: v & mask(w)}, nil, nil, nil, nil)
}

func (tt *TermTable) Bool(b bool) *Term {
	if b {
		return tt.True
	}
	return tt.False
}

func (tt *TermTable) Var(name string, w uint16) *Term {
	if v, ok := tt.vars[name]; ok {
		if v.w != w {
			panic(fmt.Sprintf("var %s redeclared with width %d (was %d)", name, w, v.w))
		}
		return v
	}
	v := tt.mk(termKey{op: OpVar, w: w, name: name}, nil, nil, nil, nil)
	tt.vars[name] = v
	return v
}

func (tt *TermTable) UF(name string, resw uint16, args ...*Term) *Term {
	sig, ok := tt.ufs[name]
	if !ok {
		sig = ufSig{resw: resw}
		for _, a := range args {
			sig.argw = append(sig.argw, a.w)
		}
		tt.ufs[name] = sig
	}
	return tt.mk(termKey{op: OpUF, w: resw, name: name}, nil, nil, nil, append([]*Term(nil), args...))
}

func sext(v uint64, w uint16) int64 {
	if w >= 64 {
		return int64(v)
	}
	sh := 64 - w
	return int64(v<<sh) >> sh
}

// mapCT rebuilds a constant-leaf ite tree with f applied to every leaf.
func (tt *TermTable) mapCT(t *Term, f func(*Term) *Term, memo map[int32]*Term) *Term {
	if t.op == OpConst {
		return f(t)
	}
	if r, ok := memo[t.id]; ok {
		return r
	}
	r := tt.Ite(t.a, tt.mapCT(t.b, f, memo), tt.mapCT(t.c, f, memo))
	memo[t.id] = r
	return r
}

func (tt *TermTable) bin(op Op, a, b *Term) *Term {
	if a.w != b.w {
		panic(fmt.Sprintf("width mismatch in %s: %d vs %d", opNames[op], a.w, b.w))
	}
	w := a.w
	m := mask(w)
	if a.IsConst() && b.IsConst() {
		x, y := a.val, b.val
		var r uint64
		switch op {
		case OpAdd:
			r = x + y
		case OpSub:
			r = x - y
		case OpMul:
			r = x * y
		case OpUDiv:
			if y == 0 {
				r = m
			} else {
				r = x / y
			}
		case OpURem:
			if y == 0 {
				r = x
			} else {
				r = x % y
			}
		case OpSDiv:
			sx, sy := sext(x, w), sext(y, w)
			if sy == 0 {
				if sx < 0 {
					r = 1
				} else {
					r = m
				}
			} else if sy == -1 {
				r = uint64(-sx)
			} else {
				r = uint64(sx / sy)
			}
		case OpSRem:
			sx, sy := sext(x, w), sext(y, w)
			if sy == 0 {
				r = x
			} else if sy == -1 {
				r = 0
			} else {
				r = uint64(sx % sy)
			}
		case OpAnd:
			r = x & y
		case OpOr:
			r = x | y
		case OpXor:
			r = x ^ y
		case OpShl:
			if y >= uint64(w) {
				r = 0
			} else {
				r = x << y
			}
		case OpLShr:
			if y >= uint64(w) {
				r = 0
			} else {
				r = x >> y
			}
		case OpAShr:
			sx := sext(x, w)
			if y >= uint64(w) {
				if sx < 0 {
					r = m
				} else {
					r = 0
				}
			} else {
				r = uint64(sx >> y)
			}
		}
		return tt.BV(r, w)
	}
	if b.IsConst() && a.ctSize > 1 {
		return tt.mapCT(a, func(l *Term) *Term { return tt.bin(op, l, b) }, map[int32]*Term{})
	}
	if a.IsConst() && b.ctSize > 1 {
		return tt.mapCT(b, func(l *Term) *Term { return tt.bin(op, a, l) }, map[int32]*Term{})
	}
	// algebraic simplifications
	switch op {
	case OpAdd:
		if a.IsConst() {
			a, b = b, a
		}
		if b.IsConst() && b.val == 0 {
			return a
		}
		// (x + c1) + c2
		if b.IsConst() && a.op == OpAdd && a.b.IsConst() {
			return tt.bin(OpAdd, a.a, tt.BV(a.b.val+b.val, w))
		}
		if b.IsConst() && a.op == OpSub && a.b.IsConst() {
			return tt.bin(OpAdd, a.a, tt.BV(b.val-a.b.val, w))
		}
	case OpSub:
		if b.IsConst() && b.val == 0 {
			return a
		}
		if a == b {
			return tt.BV(0, w)
		}
		if b.IsConst() {
			return tt.bin(OpAdd, a, tt.BV(-b.val, w))
		}
		// (x + y) - x = y ; (x + y) - y = x
		if a.op == OpAdd {
			if a.a == b {
				return a.b
			}
			if a.b == b {
				return a.a
			}
			// (x + c) - y where y = (x + d)  => c - d
			if b.op == OpAdd && a.a == b.a && a.b.IsConst() && b.b.IsConst() {
				return tt.BV(a.b.val-b.b.val, w)
			}
		}
	case OpMul:
		if a.IsConst() {
			a, b = b, a
		}
		if b.IsConst() {
			if b.val == 0 {
				return b
			}
			if b.val == 1 {
				return a
			}
		}
	case OpAnd:
		if a.IsConst() {
			a, b = b, a
		}
		if b.IsConst() {
			if b.val == 0 {
				return b
			}
			if b.val == m {
				return a
			}
			// and(zext(x), mask) where mask covers x entirely
			if a.op == OpZExt && b.val&mask(a.a.w) == mask(a.a.w) {
				return a
			}
		}
		if a == b {
			return a
		}
	case OpOr:
		if a.IsConst() {
			a, b = b, a
		}
		if b.IsConst() {
			if b.val == 0 {
				return a
			}
			if b.val == m {
				return b
			}
		}
		if a == b {
			return a
		}
		// byte reassembly: two pieces occupying adjacent bit ranges become one concatenation
		if la, ha, ia, oka := placedPiece(a); oka {
			if lb, hb, ib, okb := placedPiece(b); okb {
				if lb == ha+1 {
					return tt.place(tt.Concat(ib, ia), la, w)
				}
				if la == hb+1 {
					return tt.place(tt.Concat(ia, ib), lb, w)
				}
			}
		}
	case OpXor:
		if a.IsConst() {
			a, b = b, a
		}
		if b.IsConst() && b.val == 0 {
			return a
		}
		if a == b {
			return tt.BV(0, w)
		}
	case OpShl, OpLShr, OpAShr:
		if b.IsConst() && b.val == 0 {
			return a
		}
		if b.IsConst() && b.val >= uint64(w) && op != OpAShr {
			return tt.BV(0, w)
		}
		if a.IsConst() && a.val == 0 {
			return a
		}
		// lshr(zext(x,w), k) with k >= width(x) = 0
		if op == OpLShr && b.IsConst() && a.op == OpZExt && b.val >= uint64(a.a.w) {
			return tt.BV(0, w)
		}
	case OpUDiv:
		if b.IsConst() && b.val == 1 {
			return a
		}
	}
	return tt.mk(termKey{op: op, w: w}, a, b, nil, nil)
}

// placedPiece recognises zext(u) and shl(zext(u), c): u occupies bits [lo, hi], all others zero.
func placedPiece(t *Term) (lo, hi uint16, inner *Term, ok bool) {
	switch t.op {
	case OpZExt:
		return 0, t.a.w - 1, t.a, true
	case OpShl:
		if t.b.IsConst() && t.a.op == OpZExt && t.b.val+uint64(t.a.a.w) <= uint64(t.w) {
			c := uint16(t.b.val)
			return c, c + t.a.a.w - 1, t.a.a, true
		}
	}
	return 0, 0, nil, false
}

// place puts inner at bit offset lo of a width-w word (zeros elsewhere).
func (tt *TermTable) place(inner *Term, lo, w uint16) *Term {
	if inner.w == w {
		return inner
	}
	z := tt.ZExt(inner, w)
	if lo == 0 {
		return z
	}
	return tt.mk(termKey{op: OpShl, w: w}, z, tt.BV(uint64(lo), w), nil, nil)
}

func (tt *TermTable) Add(a, b *Term) *Term  { return tt.bin(OpAdd, a, b) }
func (tt *TermTable) Sub(a, b *Term) *Term  { return tt.bin(OpSub, a, b) }
func (tt *TermTable) Mul(a, b *Term) *Term  { return tt.bin(OpMul, a, b) }
func (tt *TermTable) UDiv(a, b *Term) *Term { return tt.bin(OpUDiv, a, b) }
func (tt *TermTable) URem(a, b *Term) *Term { return tt.bin(OpURem, a, b) }
func (tt *TermTable) SDiv(a, b *Term) *Term { return tt.bin(OpSDiv, a, b) }
func (tt *TermTable) SRem(a, b *Term) *Term { return tt.bin(OpSRem, a, b) }
func (tt *TermTable) And(a, b *Term) *Term  { return tt.bin(OpAnd, a, b) }
func (tt *TermTable) Or(a, b *Term) *Term   { return tt.bin(OpOr, a, b) }
func (tt *TermTable) Xor(a, b *Term) *Term  { return tt.bin(OpXor, a, b) }
func (tt *TermTable) Shl(a, b *Term) *Term  { return tt.bin(OpShl, a, b) }
func (tt *TermTable) LShr(a, b *Term) *Term { return tt.bin(OpLShr, a, b) }
func (tt *TermTable) AShr(a, b *Term) *Term { return tt.bin(OpAShr, a, b) }

func (tt *TermTable) BvNot(a *Term) *Term {
	if a.IsConst() {
		return tt.BV(^a.val, a.w)
	}
	if a.op == OpNot {
		return a.a
	}
	return tt.mk(termKey{op: OpNot, w: a.w}, a, nil, nil, nil)
}

func (tt *TermTable) Neg(a *Term) *Term {
	if a.IsConst() {
		return tt.BV(-a.val, a.w)
	}
	return tt.mk(termKey{op: OpNeg, w: a.w}, a, nil, nil, nil)
}

func (tt *TermTable) Extract(a *Term, hi, lo uint16) *Term {
	if hi < lo || hi >= a.w {
		panic(fmt.Sprintf("bad extract [%d:%d] of width %d", hi, lo, a.w))
	}
	w := hi - lo + 1
	if w == a.w {
		return a
	}
	if a.IsConst() {
		return tt.BV(a.val>>lo, w)
	}
	if a.ctSize > 1 {
		return tt.mapCT(a, func(l *Term) *Term { return tt.Extract(l, hi, lo) }, map[int32]*Term{})
	}
	switch a.op {
	case OpLShr:
		if a.b.IsConst() && uint64(hi)+a.b.val < uint64(a.w) {
			c := uint16(a.b.val)
			return tt.Extract(a.a, hi+c, lo+c)
		}
	case OpZExt:
		iw := a.a.w
		if lo >= iw {
			return tt.BV(0, w)
		}
		if hi < iw {
			return tt.Extract(a.a, hi, lo)
		}
		// straddles: zext(extract(inner, iw-1, lo))
		return tt.ZExt(tt.Extract(a.a, iw-1, lo), w)
	case OpSExt:
		iw := a.a.w
		if hi < iw {
			return tt.Extract(a.a, hi, lo)
		}
	case OpExtract:
		ilo := uint16(a.val & 0xffff)
		return tt.Extract(a.a, hi+ilo, lo+ilo)
	case OpConcat:
		bw := a.b.w
		if hi < bw {
			return tt.Extract(a.b, hi, lo)
		}
		if lo >= bw {
			return tt.Extract(a.a, hi-bw, lo-bw)
		}
	case OpAnd, OpOr, OpXor:
		if lo == 0 || true {
			return tt.bin(a.op, tt.Extract(a.a, hi, lo), tt.Extract(a.b, hi, lo))
		}
	case OpIte:
		if a.b.IsConst() || a.c.IsConst() {
			return tt.Ite(a.a, tt.Extract(a.b, hi, lo), tt.Extract(a.c, hi, lo))
		}
	case OpAdd, OpSub, OpMul:
		if lo == 0 {
			return tt.bin(a.op, tt.Extract(a.a, hi, 0), tt.Extract(a.b, hi, 0))
		}
	case OpShl:
		if lo == 0 && a.b.IsConst() {
			return tt.bin(OpShl, tt.Extract(a.a, hi, 0), tt.BV(a.b.val, w))
		}
	}
	return tt.mk(termKey{op: OpExtract, w: w, val: uint64(hi)<<16 | uint64(lo)}, a, nil, nil, nil)
}

func (tt *TermTable) ZExt(a *Term, w uint16) *Term {
	if w == a.w {
		return a
	}
	if w < a.w {
		panic("zext to smaller width")
	}
	if a.IsConst() {
		return tt.BV(a.val, w)
	}
	if a.op == OpZExt {
		return tt.ZExt(a.a, w)
	}
	if a.ctSize > 1 {
		return tt.mapCT(a, func(l *Term) *Term { return tt.ZExt(l, w) }, map[int32]*Term{})
	}
	if a.op == OpIte && (a.b.IsConst() || a.c.IsConst()) {
		return tt.Ite(a.a, tt.ZExt(a.b, w), tt.ZExt(a.c, w))
	}
	return tt.mk(termKey{op: OpZExt, w: w}, a, nil, nil, nil)
}

func (tt *TermTable) SExt(a *Term, w uint16) *Term {
	if w == a.w {
		return a
	}
	if w < a.w {
		panic("sext to smaller width")
	}
	if a.IsConst() {
		return tt.BV(uint64(sext(a.val, a.w)), w)
	}
	if a.op == OpZExt {
		// sign bit known zero
		return tt.ZExt(a.a, w)
	}
	if a.ctSize > 1 {
		return tt.mapCT(a, func(l *Term) *Term { return tt.SExt(l, w) }, map[int32]*Term{})
	}
	return tt.mk(termKey{op: OpSExt, w: w}, a, nil, nil, nil)
}

func (tt *TermTable) Concat(hi, lo *Term) *Term {
	// adjacent slices of one term merge: x[h1:l1] ++ x[l1-1:l2] = x[h1:l2]
	if hi.op == OpExtract {
		if lo.op == OpExtract && hi.a == lo.a && uint16(hi.val&0xffff) == uint16(lo.val>>16)+1 {
			return tt.Extract(hi.a, uint16(hi.val>>16), uint16(lo.val&0xffff))
		}
		if lo.op == OpConcat && lo.a.op == OpExtract && hi.a == lo.a.a && uint16(hi.val&0xffff) == uint16(lo.a.val>>16)+1 {
			return tt.Concat(tt.Extract(hi.a, uint16(hi.val>>16), uint16(lo.a.val&0xffff)), lo.b)
		}
	}
	w := hi.w + lo.w
	if hi.IsConst() && lo.IsConst() {
		return tt.BV(hi.val<<lo.w|lo.val, w)
	}
	if hi.IsConst() && hi.val == 0 {
		return tt.ZExt(lo, w)
	}
	return tt.mk(termKey{op: OpConcat, w: w}, hi, lo, nil, nil)
}

func (tt *TermTable) Ite(c, a, b *Term) *Term {
	if c.IsTrue() {
		return a
	}
	if c.IsFalse() {
		return b
	}
	if a == b {
		return a
	}
	if a.w != b.w {
		panic("ite width mismatch")
	}
	if a.w == 0 {
		// boolean ite
		if a.IsTrue() && b.IsFalse() {
			return c
		}
		if a.IsFalse() && b.IsTrue() {
			return tt.BNot(c)
		}
		if a.IsTrue() {
			return tt.BOr(c, b)
		}
		if a.IsFalse() {
			return tt.BAnd(tt.BNot(c), b)
		}
		if b.IsTrue() {
			return tt.BOr(tt.BNot(c), a)
		}
		if b.IsFalse() {
			return tt.BAnd(c, a)
		}
	}
	if c.op == OpBNot {
		return tt.Ite(c.a, b, a)
	}
	// ite(c, x, ite(c, y, z)) = ite(c, x, z)
	if b.op == OpIte && b.a == c {
		return tt.Ite(c, a, b.c)
	}
	if a.op == OpIte && a.a == c {
		return tt.Ite(c, a.b, b)
	}
	return tt.mk(termKey{op: OpIte, w: a.w}, c, a, b, nil)
}

// upper bound on the unsigned value of a term (cheap syntactic)
func ubound(t *Term) uint64 {
	switch t.op {
	case OpConst:
		return t.val
	case OpZExt:
		return ubound(t.a)
	case OpIte:
		x, y := ubound(t.b), ubound(t.c)
		if x > y {
			return x
		}
		return y
	case OpAnd:
		x, y := ubound(t.a), ubound(t.b)
		if x < y {
			return x
		}
		return y
	case OpLShr:
		if t.b.IsConst() && t.b.val < 64 {
			return ubound(t.a) >> t.b.val
		}
	case OpURem:
		if t.b.IsConst() && t.b.val > 0 {
			return t.b.val - 1
		}
	case OpAdd:
		x, y := ubound(t.a), ubound(t.b)
		if s, c := bits.Add64(x, y, 0); c == 0 && s <= mask(t.w) {
			return s
		}
	case OpOr, OpXor:
		x, y := ubound(t.a), ubound(t.b)
		l := bits.Len64(x | y)
		if l < 64 {
			return (uint64(1) << l) - 1
		}
	case OpShl:
		if t.b.IsConst() && t.b.val < 64 {
			x := ubound(t.a)
			if bits.Len64(x)+int(t.b.val) <= int(t.w) {
				return x << t.b.val
			}
		}
	}
	return mask(t.w)
}

func (tt *TermTable) Eq(a, b *Term) *Term {
	if a == b {
		return tt.True
	}
	if a.w != b.w {
		panic(fmt.Sprintf("eq width mismatch %d vs %d", a.w, b.w))
	}
	if a.IsConst() && b.IsConst() {
		return tt.Bool(a.val == b.val)
	}
	if a.IsConst() {
		a, b = b, a
	}
	if a.w == 0 {
		if b.IsTrue() {
			return a
		}
		if b.IsFalse() {
			return tt.BNot(a)
		}
	}
	if b.IsConst() {
		if ubound(a) < b.val {
			return tt.False
		}
		if a.ctSize > 1 {
			return tt.mapCT(a, func(l *Term) *Term { return tt.Eq(l, b) }, map[int32]*Term{})
		}
		switch a.op {
		case OpIte:
			if a.b.IsConst() || a.c.IsConst() {
				return tt.Ite(a.a, tt.Eq(a.b, b), tt.Eq(a.c, b))
			}
		case OpZExt:
			if b.val > mask(a.a.w) {
				return tt.False
			}
			return tt.Eq(a.a, tt.BV(b.val, a.a.w))
		case OpAdd:
			if a.b.IsConst() {
				return tt.Eq(a.a, tt.BV(b.val-a.b.val, a.w))
			}
		case OpXor:
			if a.b.IsConst() {
				return tt.Eq(a.a, tt.BV(b.val^a.b.val, a.w))
			}
		}
	}
	if a.op == OpZExt && b.op == OpZExt && a.a.w == b.a.w {
		return tt.Eq(a.a, b.a)
	}
	if a.id > b.id {
		a, b = b, a
	}
	return tt.mk(termKey{op: OpEq, w: 0}, a, b, nil, nil)
}

func (tt *TermTable) cmp(op Op, a, b *Term) *Term {
	if a.w != b.w {
		panic(fmt.Sprintf("cmp width mismatch %d vs %d", a.w, b.w))
	}
	if a.IsConst() && b.IsConst() {
		switch op {
		case OpUlt:
			return tt.Bool(a.val < b.val)
		case OpUle:
			return tt.Bool(a.val <= b.val)
		case OpSlt:
			return tt.Bool(sext(a.val, a.w) < sext(b.val, b.w))
		case OpSle:
			return tt.Bool(sext(a.val, a.w) <= sext(b.val, b.w))
		}
	}
	if a == b {
		return tt.Bool(op == OpUle || op == OpSle)
	}
	if b.IsConst() && a.ctSize > 1 {
		return tt.mapCT(a, func(l *Term) *Term { return tt.cmp(op, l, b) }, map[int32]*Term{})
	}
	if a.IsConst() && b.ctSize > 1 {
		return tt.mapCT(b, func(l *Term) *Term { return tt.cmp(op, a, l) }, map[int32]*Term{})
	}
	switch op {
	case OpUlt:
		if b.IsConst() && b.val == 0 {
			return tt.False
		}
		if b.IsConst() && ubound(a) < b.val {
			return tt.True
		}
		if a.IsConst() && a.val == mask(a.w) {
			return tt.False
		}
		if a.IsConst() && ubound(b) <= a.val {
			return tt.False
		}
		if b.IsConst() && b.val == 1 {
			return tt.Eq(a, tt.BV(0, a.w))
		}
	case OpUle:
		if a.IsConst() && a.val == 0 {
			return tt.True
		}
		if b.IsConst() && ubound(a) <= b.val {
			return tt.True
		}
		if a.IsConst() && ubound(b) < a.val {
			return tt.False
		}
	case OpSlt, OpSle:
		// if both are provably non-negative, use unsigned compare
		half := mask(a.w) >> 1
		if ubound(a) <= half && ubound(b) <= half {
			if op == OpSlt {
				return tt.cmp(OpUlt, a, b)
			}
			return tt.cmp(OpUle, a, b)
		}
	}
	if (op == OpUlt || op == OpUle) && a.op == OpZExt && b.op == OpZExt && a.a.w == b.a.w {
		return tt.cmp(op, a.a, b.a)
	}
	if (op == OpUlt || op == OpUle) && a.op == OpZExt && b.IsConst() && b.val <= mask(a.a.w) {
		return tt.cmp(op, a.a, tt.BV(b.val, a.a.w))
	}
	if (op == OpUlt || op == OpUle) && b.op == OpZExt && a.IsConst() && a.val <= mask(b.a.w) {
		return tt.cmp(op, tt.BV(a.val, b.a.w), b.a)
	}
	return tt.mk(termKey{op: op, w: 0}, a, b, nil, nil)
}

func (tt *TermTable) Ult(a, b *Term) *Term { return tt.cmp(OpUlt, a, b) }
func (tt *TermTable) Ule(a, b *Term) *Term { return tt.cmp(OpUle, a, b) }
func (tt *TermTable) Slt(a, b *Term) *Term { return tt.cmp(OpSlt, a, b) }
func (tt *TermTable) Sle(a, b *Term) *Term { return tt.cmp(OpSle, a, b) }

func (tt *TermTable) BNot(a *Term) *Term {
	if a.w != 0 {
		panic("BNot on bitvector")
	}
	if a.IsConst() {
		return tt.Bool(a.val == 0)
	}
	if a.op == OpBNot {
		return a.a
	}
	return tt.mk(termKey{op: OpBNot, w: 0}, a, nil, nil, nil)
}

func (tt *TermTable) BAnd(a, b *Term) *Term {
	if a.w != 0 || b.w != 0 {
		panic("BAnd on bitvector")
	}
	if a.IsFalse() || b.IsFalse() {
		return tt.False
	}
	if a.IsTrue() {
		return b
	}
	if b.IsTrue() {
		return a
	}
	if a == b {
		return a
	}
	if (a.op == OpBNot && a.a == b) || (b.op == OpBNot && b.a == a) {
		return tt.False
	}
	if a.id > b.id {
		a, b = b, a
	}
	return tt.mk(termKey{op: OpBAnd, w: 0}, a, b, nil, nil)
}

func (tt *TermTable) BOr(a, b *Term) *Term {
	if a.w != 0 || b.w != 0 {
		panic("BOr on bitvector")
	}
	if a.IsTrue() || b.IsTrue() {
		return tt.True
	}
	if a.IsFalse() {
		return b
	}
	if b.IsFalse() {
		return a
	}
	if a == b {
		return a
	}
	if (a.op == OpBNot && a.a == b) || (b.op == OpBNot && b.a == a) {
		return tt.True
	}
	if a.id > b.id {
		a, b = b, a
	}
	return tt.mk(termKey{op: OpBOr, w: 0}, a, b, nil, nil)
}

func (tt *TermTable) Implies(a, b *Term) *Term { return tt.BOr(tt.BNot(a), b) }

// Bool <-> BV helpers
func (tt *TermTable) BoolToBV(b *Term, w uint16) *Term {
	return tt.Ite(b, tt.BV(1, w), tt.BV(0, w))
}

// ---------------------------------------------------------------- evaluation

type Model struct {
	vals map[string]uint64
	ufs  map[string]map[string]uint64 // name -> "a,b,c" -> value
	ufDefault map[string]uint64
}

func (tt *TermTable) Eval(t *Term, m *Model, memo map[int32]uint64) (uint64, bool) {
	if v, ok := memo[t.id]; ok {
		return v, true
	}
	var r uint64
	ok := true
	ev := func(x *Term) uint64 {
		v, o := tt.Eval(x, m, memo)
		if !o {
			ok = false
		}
		return v
	}
	switch t.op {
	case OpConst:
		r = t.val
	case OpVar:
		v, has := m.vals[t.name]
		if !has {
			v = 0
		}
		r = v
	case OpUF:
		tab := m.ufs[t.name]
		var sb strings.Builder
		for i, a := range t.args {
			if i > 0 {
				sb.WriteByte(',')
			}
			fmt.Fprintf(&sb, "%d", ev(a))
		}
		if v, has := tab[sb.String()]; has {
			r = v
		} else if d, has := m.ufDefault[t.name]; has {
			r = d
		} else {
			return 0, false
		}
	case OpNot:
		r = ^ev(t.a)
	case OpNeg:
		r = -ev(t.a)
	case OpExtract:
		lo := uint16(t.val & 0xffff)
		r = ev(t.a) >> lo
	case OpZExt:
		r = ev(t.a)
	case OpSExt:
		r = uint64(sext(ev(t.a), t.a.w))
	case OpConcat:
		r = ev(t.a)<<t.b.w | ev(t.b)
	case OpIte:
		if ev(t.a) != 0 {
			r = ev(t.b)
		} else {
			r = ev(t.c)
		}
	case OpEq:
		r = b2u(ev(t.a) == ev(t.b))
	case OpUlt:
		r = b2u(ev(t.a) < ev(t.b))
	case OpUle:
		r = b2u(ev(t.a) <= ev(t.b))
	case OpSlt:
		r = b2u(sext(ev(t.a), t.a.w) < sext(ev(t.b), t.b.w))
	case OpSle:
		r = b2u(sext(ev(t.a), t.a.w) <= sext(ev(t.b), t.b.w))
	case OpBAnd:
		r = b2u(ev(t.a) != 0 && ev(t.b) != 0)
	case OpBOr:
		r = b2u(ev(t.a) != 0 || ev(t.b) != 0)
	case OpBNot:
		r = b2u(ev(t.a) == 0)
	default:
		x, y := ev(t.a), ev(t.b)
		c := tt.bin(t.op, tt.BV(x, t.w), tt.BV(y, t.w))
		r = c.val
	}
	if !ok {
		return 0, false
	}
	if t.w > 0 {
		r &= mask(t.w)
	}
	memo[t.id] = r
	return r, true
}

func b2u(b bool) uint64 {
	if b {
		return 1
	}
	return 0
}

// ---------------------------------------------------------------- printing

func sortName(w uint16) string {
	if w == 0 {
		return "Bool"
	}
	return fmt.Sprintf("(_ BitVec %d)", w)
}

func smtConst(t *Term) string {
	if t.w == 0 {
		if t.val != 0 {
			return "true"
		}
		return "false"
	}
	if t.w%4 == 0 {
		return fmt.Sprintf("#x%0*x", int(t.w/4), t.val)
	}
	return fmt.Sprintf("(_ bv%d %d)", t.val, t.w)
}

func smtVarName(name string) string {
	return "|" + name + "|"
}

// body renders the term with children referenced by their definition names.
func (t *Term) smtBody(ref func(*Term) string) string {
	switch t.op {
	case OpConst:
		return smtConst(t)
	case OpVar:
		return smtVarName(t.name)
	case OpUF:
		var sb strings.Builder
		sb.WriteString("(|" + t.name + "|")
		for _, a := range t.args {
			sb.WriteByte(' ')
			sb.WriteString(ref(a))
		}
		sb.WriteByte(')')
		return sb.String()
	case OpExtract:
		return fmt.Sprintf("((_ extract %d %d) %s)", t.val>>16, t.val&0xffff, ref(t.a))
	case OpZExt:
		return fmt.Sprintf("((_ zero_extend %d) %s)", t.w-t.a.w, ref(t.a))
	case OpSExt:
		return fmt.Sprintf("((_ sign_extend %d) %s)", t.w-t.a.w, ref(t.a))
	case OpIte:
		return fmt.Sprintf("(ite %s %s %s)", ref(t.a), ref(t.b), ref(t.c))
	case OpNot, OpNeg, OpBNot:
		return fmt.Sprintf("(%s %s)", opNames[t.op], ref(t.a))
	default:
		return fmt.Sprintf("(%s %s %s)", opNames[t.op], ref(t.a), ref(t.b))
	}
}

// String renders a term fully inlined (for diagnostics; can be large).
func (t *Term) String() string {
	var f func(x *Term, d int) string
	f = func(x *Term, d int) string {
		if d > 6 {
			return fmt.Sprintf("t%d", x.id)
		}
		return x.smtBody(func(y *Term) string { return f(y, d+1) })
	}
	return f(t, 0)
}

// ---------------------------------------------------------------- variable sets (for constraint independence)

// varSet returns the sorted ids of the variables (and UF symbols, as pseudo variables) under t.
func (tt *TermTable) varSet(t *Term) []int32 {
	if t.vsetDone {
		return t.vset
	}
	switch t.op {
	case OpConst:
	case OpVar:
		t.vset = []int32{t.id}
	case OpUF:
		sym := tt.ufSym(t.name)
		set := []int32{sym}
		for _, a := range t.args {
			set = mergeSets(set, tt.varSet(a))
		}
		t.vset = set
	default:
		var set []int32
		if t.a != nil {
			set = tt.varSet(t.a)
		}
		if t.b != nil {
			set = mergeSets(set, tt.varSet(t.b))
		}
		if t.c != nil {
			set = mergeSets(set, tt.varSet(t.c))
		}
		t.vset = set
	}
	t.vsetDone = true
	return t.vset
}

func (tt *TermTable) ufSym(name string) int32 {
	if tt.ufIDs == nil {
		tt.ufIDs = map[string]int32{}
	}
	if id, ok := tt.ufIDs[name]; ok {
		return id
	}
	id := int32(-2 - len(tt.ufIDs))
	tt.ufIDs[name] = id
	return id
}

func mergeSets(a, b []int32) []int32 {
	if len(a) == 0 {
		return b
	}
	if len(b) == 0 {
		return a
	}
	// fast path: b subset-of a or equal slices
	if len(a) == len(b) && &a[0] == &b[0] {
		return a
	}
	out := make([]int32, 0, len(a)+len(b))
	i, j := 0, 0
	for i < len(a) && j < len(b) {
		switch {
		case a[i] == b[j]:
			out = append(out, a[i])
			i++
			j++
		case a[i] < b[j]:
			out = append(out, a[i])
			i++
		default:
			out = append(out, b[j])
			j++
		}
	}
	out = append(out, a[i:]...)
	out = append(out, b[j:]...)
	if len(out) == len(a) {
		return a
	}
	if len(out) == len(b) {
		return b
	}
	return out
}

func setsIntersect(a, b []int32) bool {
	i, j := 0, 0
	for i < len(a) && j < len(b) {
		switch {
		case a[i] == b[j]:
			return true
		case a[i] < b[j]:
			i++
		default:
			j++
		}
	}
	return false
}
