package main

// Run-time values of the symbolic executor ("concrete shape, symbolic content").

import (
	"fmt"
	"go/types"

	"golang.org/x/tools/go/ssa"
)

// Value is one of:
//   *Term                 bool / integer scalar
//   *StrVal               string
//   *PtrVal               pointer (nil pointer: &PtrVal{} with no target)
//   *SliceVal             slice
//   *StructVal            struct value (fields are cells so that field addresses are stable)
//   *ArrObj               array value (deep-copied when used as a value; shared when behind a slice)
//   *IfaceVal             interface value
//   *MapVal               map (reference; nil map = (*MapVal)(nil))
//   *FuncVal              function / closure (nil func = (*FuncVal)(nil))
//   *ChanVal              channel
//   TupleVal              multiple results
//   FloatVal              concrete float64 (no symbolic floats)
//   *RangeIter            iterator state for Range/Next
//   *OpaqueVal            opaque host object handed around by intrinsics
type Value interface{}

type Cell struct {
	v  Value
	id int // allocation id (for event recording / diagnostics)
}

type StrVal struct {
	b []*Term // BV8 terms
}

type PtrVal struct {
	cell *Cell   // direct cell
	arr  *ArrObj // or element idx of arr
	idx  *Term   // BV64
	typ  types.Type // pointee type when known (for unsafe / diagnostics)
}

func (p *PtrVal) isNil() bool { return p == nil || (p.cell == nil && p.arr == nil) }

type ArrObj struct {
	e   []Value
	et  types.Type
	id  int
}

type SliceVal struct {
	arr *ArrObj // nil for nil slice
	off int
	len int // when symLen == nil: the length; otherwise the number of physical cells available from off
	cap int
	// symLen != nil: the true length is this BV64 term (it may be below or above the physical
	// cells modelled); symCap likewise for the capacity. Such slices are materialised lazily.
	symLen *Term
	symCap *Term
	// lazyCap != nil (only with symLen == nil): the true capacity is this BV64 term, cap is the
	// number of physical cells; decided at the uses of the capacity (cap(), append, reslicing
	// beyond the length) instead of being enumerated when the length is materialised.
	lazyCap *Term
}

type StructVal struct {
	f []*Cell
}

type IfaceVal struct {
	t types.Type // dynamic type; nil = nil interface
	v Value
}

type MapVal struct {
	kt, vt types.Type
	keys   []Value
	vals   []Value
	id     int
}

type FuncVal struct {
	fn      *ssa.Function
	fv      []Value // free variable bindings
	builtin *ssa.Builtin
	native  func(ex *Exec, args []Value) Value // engine-provided function value
	name    string
}

type ChanVal struct {
	buf    []Value
	cap    int
	closed bool
	et     types.Type
	sendq  []*waitingSend
	recvq  []*gor
	id     int
}

type TupleVal []Value

type FloatVal float64

type OpaqueVal struct {
	kind string
	x    interface{}
}

type RangeIter struct {
	str  *StrVal
	m    *MapVal
	keys []Value
	vals []Value
	pos  int
}

// ---------------------------------------------------------------- type helpers

func bvInfo(t types.Type) (w uint16, signed bool, ok bool) {
	b, isB := t.Underlying().(*types.Basic)
	if !isB {
		return 0, false, false
	}
	switch b.Kind() {
	case types.Bool, types.UntypedBool:
		return 0, false, true
	case types.Int8:
		return 8, true, true
	case types.Int16:
		return 16, true, true
	case types.Int32, types.UntypedRune:
		return 32, true, true
	case types.Int, types.Int64, types.UntypedInt:
		return 64, true, true
	case types.Uint8:
		return 8, false, true
	case types.Uint16:
		return 16, false, true
	case types.Uint32:
		return 32, false, true
	case types.Uint, types.Uint64, types.Uintptr:
		return 64, false, true
	}
	return 0, false, false
}

func isString(t types.Type) bool {
	b, ok := t.Underlying().(*types.Basic)
	return ok && b.Info()&types.IsString != 0
}

func isFloat(t types.Type) bool {
	b, ok := t.Underlying().(*types.Basic)
	return ok && b.Info()&types.IsFloat != 0
}

func (ex *Exec) zero(t types.Type) Value {
	switch u := t.Underlying().(type) {
	case *types.Basic:
		if w, _, ok := bvInfo(t); ok {
			if w == 0 {
				return ex.tt.False
			}
			return ex.tt.BV(0, w)
		}
		if u.Info()&types.IsString != 0 {
			return &StrVal{}
		}
		if u.Info()&types.IsFloat != 0 {
			return FloatVal(0)
		}
		if u.Kind() == types.UnsafePointer {
			return &PtrVal{}
		}
		if u.Kind() == types.UntypedNil {
			return nil
		}
		ex.unsupported("zero value of basic type " + t.String())
	case *types.Pointer:
		return &PtrVal{}
	case *types.Slice:
		return &SliceVal{}
	case *types.Struct:
		s := &StructVal{f: make([]*Cell, u.NumFields())}
		for i := range s.f {
			s.f[i] = ex.newCell(ex.zero(u.Field(i).Type()))
		}
		return s
	case *types.Array:
		n := int(u.Len())
		a := &ArrObj{e: make([]Value, n), et: u.Elem(), id: ex.nextID()}
		if n > 0 {
			if _, _, ok := bvInfo(u.Elem()); ok {
				z := ex.zero(u.Elem())
				for i := range a.e {
					a.e[i] = z
				}
			} else {
				for i := range a.e {
					a.e[i] = ex.zero(u.Elem())
				}
			}
		}
		return a
	case *types.Interface:
		return &IfaceVal{}
	case *types.Map:
		return (*MapVal)(nil)
	case *types.Signature:
		return (*FuncVal)(nil)
	case *types.Chan:
		return (*ChanVal)(nil)
	case *types.Tuple:
		tv := make(TupleVal, u.Len())
		for i := range tv {
			tv[i] = ex.zero(u.At(i).Type())
		}
		return tv
	}
	ex.unsupported("zero value of type " + t.String())
	return nil
}

func (ex *Exec) newCell(v Value) *Cell {
	return &Cell{v: v, id: ex.nextID()}
}

// copyVal implements Go value semantics: structs and arrays are deep-copied, references shared.
func (ex *Exec) copyVal(v Value) Value {
	switch x := v.(type) {
	case *StructVal:
		n := &StructVal{f: make([]*Cell, len(x.f))}
		for i, c := range x.f {
			n.f[i] = ex.newCell(ex.copyVal(c.v))
		}
		return n
	case *ArrObj:
		n := &ArrObj{e: make([]Value, len(x.e)), et: x.et, id: ex.nextID()}
		if len(x.e) > 0 {
			switch x.e[0].(type) {
			case *StructVal, *ArrObj:
				for i, e := range x.e {
					n.e[i] = ex.copyVal(e)
				}
			default:
				copy(n.e, x.e)
			}
		}
		return n
	case TupleVal:
		n := make(TupleVal, len(x))
		for i, e := range x {
			n[i] = ex.copyVal(e)
		}
		return n
	}
	return v
}

// ---------------------------------------------------------------- pointers

func (ex *Exec) load(p *PtrVal) Value {
	if p.isNil() {
		ex.goPanicStr("runtime error: invalid memory address or nil pointer dereference")
	}
	if p.cell != nil {
		ex.noteAccess(p.cell, nil, 0, false)
		return ex.copyVal(p.cell.v)
	}
	return ex.arrLoad(p.arr, p.idx)
}

func (ex *Exec) store(p *PtrVal, v Value) {
	if p.isNil() {
		ex.goPanicStr("runtime error: invalid memory address or nil pointer dereference")
	}
	if p.cell != nil {
		ex.noteAccess(p.cell, nil, 0, true)
		ex.assignCell(p.cell, v)
		return
	}
	ex.arrStore(p.arr, p.idx, v)
}

// assignCell stores v into c keeping the identity of the cells of structs and arrays already
// there: pointers to fields and elements taken earlier must stay valid across a whole-value store.
func (ex *Exec) assignCell(c *Cell, v Value) {
	switch nv := v.(type) {
	case *StructVal:
		if old, ok := c.v.(*StructVal); ok && len(old.f) == len(nv.f) && old != nv {
			for i := range old.f {
				ex.assignCell(old.f[i], nv.f[i].v)
			}
			return
		}
	case *ArrObj:
		if old, ok := c.v.(*ArrObj); ok && len(old.e) == len(nv.e) && old != nv {
			for i := range old.e {
				old.e[i] = ex.assignElem(old.e[i], nv.e[i])
			}
			return
		}
	}
	c.v = ex.copyVal(v)
}

// assignElem is assignCell for array elements (which are stored without cells).
func (ex *Exec) assignElem(old Value, v Value) Value {
	switch nv := v.(type) {
	case *StructVal:
		if o, ok := old.(*StructVal); ok && len(o.f) == len(nv.f) && o != nv {
			for i := range o.f {
				ex.assignCell(o.f[i], nv.f[i].v)
			}
			return o
		}
	case *ArrObj:
		if o, ok := old.(*ArrObj); ok && len(o.e) == len(nv.e) && o != nv {
			for i := range o.e {
				o.e[i] = ex.assignElem(o.e[i], nv.e[i])
			}
			return o
		}
	}
	return ex.copyVal(v)
}

// arrLoad reads arr[idx]; idx is in bounds (checked by the creator of the pointer).
func (ex *Exec) arrLoad(a *ArrObj, idx *Term) Value {
	if idx.IsConst() {
		ex.noteAccess(nil, a, int(idx.val), false)
		return ex.copyVal(a.e[idx.val])
	}
	// symbolic index: scalars become ite chains
	if len(a.e) == 0 {
		ex.unsupported("symbolic index into empty array")
	}
	if _, isTerm := a.e[0].(*Term); isTerm && len(a.e) <= ex.cfg.maxIteChain {
		lo, hi := ex.idxRange(idx, len(a.e))
		r := a.e[hi].(*Term)
		for i := hi - 1; i >= lo; i-- {
			r = ex.tt.Ite(ex.tt.Eq(idx, ex.tt.BV(uint64(i), 64)), a.e[i].(*Term), r)
		}
		return r
	}
	i := ex.Concretize(idx, "array index")
	return ex.copyVal(a.e[i])
}

func (ex *Exec) arrStore(a *ArrObj, idx *Term, v Value) {
	if idx.IsConst() {
		ex.noteAccess(nil, a, int(idx.val), true)
		a.e[idx.val] = ex.assignElem(a.e[idx.val], v)
		return
	}
	if t, isTerm := v.(*Term); isTerm && len(a.e) <= ex.cfg.maxIteChain {
		lo, hi := ex.idxRange(idx, len(a.e))
		for i := lo; i <= hi; i++ {
			a.e[i] = ex.tt.Ite(ex.tt.Eq(idx, ex.tt.BV(uint64(i), 64)), t, a.e[i].(*Term))
		}
		return
	}
	i := ex.Concretize(idx, "array index")
	a.e[i] = ex.assignElem(a.e[i], v)
}

// idxRange narrows the candidate range of a symbolic index using the cheap syntactic bound.
func (ex *Exec) idxRange(idx *Term, n int) (int, int) {
	hi := n - 1
	if ub := ubound(idx); ub < uint64(hi) {
		hi = int(ub)
	}
	return 0, hi
}

// ---------------------------------------------------------------- strings

func (ex *Exec) strConst(s string) *StrVal {
	r := &StrVal{b: make([]*Term, len(s))}
	for i := 0; i < len(s); i++ {
		r.b[i] = ex.tt.BV(uint64(s[i]), 8)
	}
	return r
}

func (s *StrVal) concrete() (string, bool) {
	bs := make([]byte, len(s.b))
	for i, t := range s.b {
		if !t.IsConst() {
			return "", false
		}
		bs[i] = byte(t.val)
	}
	return string(bs), true
}

func (ex *Exec) bytesEq(a, b []*Term) *Term {
	if len(a) != len(b) {
		return ex.tt.False
	}
	r := ex.tt.True
	for i := range a {
		r = ex.tt.BAnd(r, ex.tt.Eq(a[i], b[i]))
		if r.IsFalse() {
			return r
		}
	}
	return r
}

// bytesLess: lexicographic a < b as a term.
func (ex *Exec) bytesLess(a, b []*Term) *Term {
	// build from the end
	n := len(a)
	if len(b) < n {
		n = len(b)
	}
	r := ex.tt.Bool(len(a) < len(b))
	for i := n - 1; i >= 0; i-- {
		lt := ex.tt.Ult(a[i], b[i])
		eq := ex.tt.Eq(a[i], b[i])
		r = ex.tt.BOr(lt, ex.tt.BAnd(eq, r))
	}
	return r
}

// mat turns a slice with a symbolic length into one with a concrete length (case split).
func (ex *Exec) mat(s *SliceVal) *SliceVal {
	if s == nil || s.symLen == nil {
		return s
	}
	n := int(ex.Concretize(s.symLen, "slice length"))
	if n > s.len {
		panic(pathEnd{kind: "bound", msg: fmt.Sprintf("slice of symbolic length materialised at %d elements, beyond the %d modelled cells", n, s.len)})
	}
	c := s.cap
	var lazy *Term
	if s.symCap != nil {
		if s.symCap == s.symLen {
			c = n
		} else {
			// capacity and length are different symbolic quantities (a buffer of input-chosen
			// size resliced to what is left to read): keep the capacity symbolic
			lazy = s.symCap
		}
	}
	return &SliceVal{arr: s.arr, off: s.off, len: n, cap: c, lazyCap: lazy}
}

// forceCap gives a slice with a lazily-known capacity a concrete one (case split).
func (ex *Exec) forceCap(s *SliceVal) {
	if s == nil || s.lazyCap == nil {
		return
	}
	c := int(ex.Concretize(s.lazyCap, "slice capacity"))
	if c < s.cap {
		s.cap = c
	}
	s.lazyCap = nil
}

func (ex *Exec) matArgs(args []Value) {
	for i, a := range args {
		if sv, ok := a.(*SliceVal); ok && sv != nil && sv.symLen != nil {
			args[i] = ex.mat(sv)
		}
	}
}

func (ex *Exec) sliceBytes(s *SliceVal) []*Term {
	if s.symLen != nil {
		ex.unsupported("engine: slice with symbolic length used without materialisation")
	}
	r := make([]*Term, s.len)
	for i := 0; i < s.len; i++ {
		r[i] = s.arr.e[s.off+i].(*Term)
	}
	return r
}

func (ex *Exec) mkByteSlice(b []*Term) *SliceVal {
	a := &ArrObj{e: make([]Value, len(b)), et: types.Typ[types.Uint8], id: ex.nextID()}
	for i, t := range b {
		a.e[i] = t
	}
	return &SliceVal{arr: a, off: 0, len: len(b), cap: len(b)}
}

func (ex *Exec) concreteBytes(b []*Term) ([]byte, bool) {
	r := make([]byte, len(b))
	for i, t := range b {
		if !t.IsConst() {
			return nil, false
		}
		r[i] = byte(t.val)
	}
	return r, true
}

// ---------------------------------------------------------------- equality

func (ex *Exec) equal(a, b Value) *Term {
	switch x := a.(type) {
	case *Term:
		y, ok := b.(*Term)
		if !ok {
			ex.unsupported(fmt.Sprintf("compare term with %T", b))
		}
		return ex.tt.Eq(x, y)
	case *StrVal:
		return ex.bytesEq(x.b, b.(*StrVal).b)
	case FloatVal:
		return ex.tt.Bool(x == b.(FloatVal))
	case *PtrVal:
		y := b.(*PtrVal)
		if x.isNil() || y.isNil() {
			return ex.tt.Bool(x.isNil() && y.isNil())
		}
		if x.cell != nil || y.cell != nil {
			return ex.tt.Bool(x.cell == y.cell)
		}
		if x.arr != y.arr {
			return ex.tt.False
		}
		return ex.tt.Eq(x.idx, y.idx)
	case *StructVal:
		y := b.(*StructVal)
		r := ex.tt.True
		for i := range x.f {
			r = ex.tt.BAnd(r, ex.equal(x.f[i].v, y.f[i].v))
		}
		return r
	case *ArrObj:
		y := b.(*ArrObj)
		r := ex.tt.True
		for i := range x.e {
			r = ex.tt.BAnd(r, ex.equal(x.e[i], y.e[i]))
		}
		return r
	case *IfaceVal:
		y, ok := b.(*IfaceVal)
		if !ok {
			ex.unsupported(fmt.Sprintf("compare interface with %T", b))
		}
		if x.t == nil || y.t == nil {
			return ex.tt.Bool(x.t == nil && y.t == nil)
		}
		if !types.Identical(x.t, y.t) {
			return ex.tt.False
		}
		if !types.Comparable(x.t) {
			ex.goPanicStr("runtime error: comparing uncomparable type " + x.t.String())
		}
		return ex.equal(x.v, y.v)
	case *MapVal:
		y := b.(*MapVal)
		return ex.tt.Bool(x == y)
	case *FuncVal:
		y := b.(*FuncVal)
		return ex.tt.Bool(x == y)
	case *ChanVal:
		return ex.tt.Bool(x == b.(*ChanVal))
	case *SliceVal:
		y := b.(*SliceVal)
		// only comparison with nil is legal
		return ex.tt.Bool(x.arr == nil && y.arr == nil)
	case *OpaqueVal:
		y, ok := b.(*OpaqueVal)
		return ex.tt.Bool(ok && x == y)
	case nil:
		return ex.tt.Bool(b == nil)
	}
	ex.unsupported(fmt.Sprintf("equality on %T", a))
	return nil
}

func describe(v Value) string { return describeD(v, 0) }

func describeD(v Value, d int) string {
	if d > 4 {
		return "..."
	}
	switch x := v.(type) {
	case *Term:
		return x.String()
	case *StrVal:
		if s, ok := x.concrete(); ok {
			return fmt.Sprintf("%q", s)
		}
		return fmt.Sprintf("<string len %d>", len(x.b))
	case *IfaceVal:
		if x.t == nil {
			return "nil"
		}
		return fmt.Sprintf("%s(%s)", x.t, describeD(x.v, d+1))
	case *PtrVal:
		if x.isNil() {
			return "nil"
		}
		if x.cell != nil {
			return "&" + describeD(x.cell.v, d+1)
		}
		return "&arr[...]"
	case TupleVal:
		s := "("
		for i, c := range x {
			if i > 0 {
				s += ", "
			}
			s += describeD(c, d+1)
		}
		return s + ")"
	case *StructVal:
		s := "{"
		for i, c := range x.f {
			if i > 0 {
				s += ", "
			}
			s += describeD(c.v, d+1)
		}
		return s + "}"
	}
	return fmt.Sprintf("%T", v)
}
