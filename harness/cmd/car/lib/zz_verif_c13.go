package lib

import (
	"bytes"
	"os"

	"github.com/ipfs/go-cid"
	carv2 "github.com/ipld/go-car/v2"
	"github.com/ipld/go-car/v2/storage"
)

type vMemW struct {
	data []byte
	pos  int
}

func (f *vMemW) Write(p []byte) (int, error) {
	n, _ := f.WriteAt(p, int64(f.pos))
	f.pos += n
	return n, nil
}

func (f *vMemW) WriteAt(p []byte, off int64) (int, error) {
	if len(f.data) < int(off)+len(p) {
		f.data = append(f.data, make([]byte, int(off)+len(p)-len(f.data))...)
	}
	copy(f.data[off:], p)
	return len(p), nil
}

// VerifH_C13_InspectReport: the report of `car inspect` (lib.InspectCar, with and without --full)
// over a CARv2 whose 128-bit characteristics field is arbitrary (the two words differ in general),
// with data and index padding and one or two valid blocks: every reported container field equals
// the bytes of the file header, and the statistics equal those of the library's Inspect.
func VerifH_C13_InspectReport() {
	root := vCidID("root")
	b1, b2 := vCidT("b1"), vCidT("b2")
	vAssume(b1.Prefix().MhType != 0 && b2.Prefix().MhType != 0)
	d1 := vBytes("d1", vChoose("n1", 2))
	d2 := vBytes("d2", 1)
	vAssume(vValidBlock(b1, d1) && vValidBlock(b2, d2))
	vAssume(vImplies(vBytesEq(b1.Hash(), b2.Hash()), vBytesEq(d1, d2)))
	f := &vMemW{}
	w, err := storage.NewWritable(f, []cid.Cid{root}, carv2.UseDataPadding(uint64(5*vChoose("dataPad", 2))), carv2.UseIndexPadding(uint64(3*vChoose("indexPad", 2))))
	vAssert("build", err == nil)
	vAssert("put1", w.Put(nil, b1.KeyString(), d1) == nil)
	vAssert("put2", w.Put(nil, b2.KeyString(), d2) == nil)
	vAssert("finalize", w.Finalize() == nil)
	file := f.data
	// arbitrary characteristics (reserved bits are to be carried, not interpreted)
	hi, lo := vU64("charHi"), vU64("charLo")
	for i := 0; i < 8; i++ {
		file[11+i] = byte(hi >> (8 * uint(i)))
		file[19+i] = byte(lo >> (8 * uint(i)))
	}
	path := vFSPath("r.car")
	vFSWriteFile(path, file)
	fh, err := os.Open(path)
	vAssert("open", err == nil)
	full := vBool("full")
	rep, rerr := InspectCar(fh, full)
	fh.Close()
	vAssert("inspect-ok", rerr == nil)
	rd, err := carv2.NewReader(bytes.NewReader(file))
	vAssert("reader", err == nil)
	st, serr := rd.Inspect(full)
	vAssert("library-inspect-ok", serr == nil)
	vAssert("characteristics-are-the-header-bytes", vBytesEq(rep.Characteristics, file[11:27]))
	vAssert("offsets", rep.DataOffset == st.Header.DataOffset && rep.DataLength == st.Header.DataSize && rep.IndexOffset == st.Header.IndexOffset)
	vAssert("version-and-counts", rep.Version == 2 && rep.BlockCount == st.BlockCount && rep.RootsPresent == st.RootsPresent)
	vAssert("block-lengths", rep.BlkLength.Min == st.MinBlockLength && rep.BlkLength.Mean == st.AvgBlockLength && rep.BlkLength.Max == st.MaxBlockLength)
	vAssert("cid-lengths", rep.CidLength.Min == st.MinCidLength && rep.CidLength.Mean == st.AvgCidLength && rep.CidLength.Max == st.MaxCidLength)
	vAssert("one-root-reported", len(rep.Roots) == 1)
	vCover("words-differ", hi != lo)
	vCover("deduplicated-to-one-block", rep.BlockCount == 1)
}
