package lib

import (
	"bytes"
	"context"
	"errors"
	"io"

	"github.com/ipfs/go-unixfsnode/data/builder"
	dagpb "github.com/ipld/go-codec-dagpb"
	"github.com/ipld/go-ipld-prime"
	"github.com/ipld/go-ipld-prime/datamodel"
	cidlink "github.com/ipld/go-ipld-prime/linking/cid"
	"github.com/ipld/go-ipld-prime/node/basicnode"
	"github.com/ipld/go-ipld-prime/storage/memstore"
)

func vLinkSystem() *ipld.LinkSystem {
	ls := cidlink.DefaultLinkSystem()
	store := &memstore.Store{Bag: map[string][]byte{}}
	ls.SetReadStorage(store)
	ls.SetWriteStorage(store)
	ls.TrustedStorage = true
	return &ls
}

// vDirNode is a directory node whose entry names are chosen by the solver; the entries link to
// real UnixFS nodes (files, symlinks, directories) stored in the link system.
type vDirEntry struct {
	name string
	link datamodel.Link
}

type vDirNode struct {
	entries []vDirEntry
}

var errVNode = errors.New("vDirNode: not supported")

func (n *vDirNode) Kind() datamodel.Kind { return datamodel.Kind_Map }
func (n *vDirNode) LookupByString(key string) (datamodel.Node, error) {
	for _, e := range n.entries {
		if e.name == key {
			return basicnode.NewLink(e.link), nil
		}
	}
	return nil, datamodel.ErrNotExists{}
}
func (n *vDirNode) LookupByNode(datamodel.Node) (datamodel.Node, error) { return nil, errVNode }
func (n *vDirNode) LookupByIndex(int64) (datamodel.Node, error)         { return nil, errVNode }
func (n *vDirNode) LookupBySegment(datamodel.PathSegment) (datamodel.Node, error) {
	return nil, errVNode
}
func (n *vDirNode) MapIterator() datamodel.MapIterator   { return &vDirIter{n: n} }
func (n *vDirNode) ListIterator() datamodel.ListIterator { return nil }
func (n *vDirNode) Length() int64                        { return int64(len(n.entries)) }
func (n *vDirNode) IsAbsent() bool                       { return false }
func (n *vDirNode) IsNull() bool                         { return false }
func (n *vDirNode) AsBool() (bool, error)                { return false, errVNode }
func (n *vDirNode) AsInt() (int64, error)                { return 0, errVNode }
func (n *vDirNode) AsFloat() (float64, error)            { return 0, errVNode }
func (n *vDirNode) AsString() (string, error)            { return "", errVNode }
func (n *vDirNode) AsBytes() ([]byte, error)             { return nil, errVNode }
func (n *vDirNode) AsLink() (datamodel.Link, error)      { return nil, errVNode }
func (n *vDirNode) Prototype() datamodel.NodePrototype   { return basicnode.Prototype.Map }

type vDirIter struct {
	n *vDirNode
	i int
}

func (it *vDirIter) Next() (datamodel.Node, datamodel.Node, error) {
	e := it.n.entries[it.i]
	it.i++
	return basicnode.NewString(e.name), basicnode.NewLink(e.link), nil
}
func (it *vDirIter) Done() bool { return it.i >= len(it.n.entries) }

// vName: an entry name of 1..3 bytes over the alphabet {'a', 'b', '.', '/'}.
func vEntryName(tag string) string {
	maxLen := 2
	if vTier() == 1 {
		maxLen = 3
	}
	n := 1 + vChoose(tag+".len", maxLen)
	b := vBytes(tag, n)
	for _, c := range b {
		vAssume(vOr(vOr(c == 'a', c == 'b'), vOr(c == '.', c == '/')))
	}
	return string(b)
}

// VerifH_C17_ExtractContainment: a directory with two entries whose names are chosen by the solver
// (1..3 bytes over {a, b, ., /}), each entry a file, a symlink (target inside, outside, absolute,
// dot-dot) or a sub-directory, is extracted into an output directory that is empty or already
// holds a symlink pointing outside. Nothing outside the output directory is created or modified.
func VerifH_C17_ExtractContainment() {
	ls := vLinkSystem()
	fileL, fsz, err := builder.BuildUnixFSFile(bytes.NewReader([]byte("PWNED")), "", ls)
	vAssert("file-built", err == nil)
	inner, err := builder.BuildUnixFSDirectoryEntry("x", int64(fsz), fileL)
	vAssert("entry-built", err == nil)
	subdirL, _, err := builder.BuildUnixFSDirectory([]dagpb.PBLink{inner}, ls)
	vAssert("subdir-built", err == nil)

	base := vFSPath("")
	out := vFSPath("out")
	outside := vFSPath("outside")
	vFSMkdir(out)
	vFSMkdir(outside)
	vFSWriteFile(outside+"/secret", []byte("secret"))
	if vChoose("prepopulated", 2) == 1 {
		vFSSymlink(outside, out+"/b")
		vCover("prepopulated-symlink", true)
	}
	_ = base

	targets := []string{"../outside/secret", outside + "/secret", "../outside"}
	if vTier() == 1 {
		targets = append(targets, "a", ".")
	}
	mkChild := func(tag string) datamodel.Link {
		switch vChoose(tag+".kind", 3) {
		case 0:
			return fileL
		case 1:
			t := targets[vChoose(tag+".target", len(targets))]
			l, _, err := builder.BuildUnixFSSymlink(t, ls)
			vAssert("symlink-built", err == nil)
			return l
		default:
			return subdirL
		}
	}
	dir := &vDirNode{}
	dir.entries = append(dir.entries, vDirEntry{vEntryName("n1"), mkChild("e1")})
	dir.entries = append(dir.entries, vDirEntry{vEntryName("n2"), mkChild("e2")})

	vFSMarkFor(out)
	_, eerr := extractDir(context.Background(), ls, dir, out, "/", nil, false, io.Discard)
	escaped := vFSOutsideChanged(out)
	vAssert("nothing-outside-output-dir-changed", !escaped)
	sec, ok := vFSReadFile(outside + "/secret")
	vAssert("outside-file-intact", ok && string(sec) == "secret")
	vCover("extracted-ok", eerr == nil)
	vCover("extraction-refused", eerr != nil)
}

// VerifH_C17_ExtractRootFile: a root that is a file (not a directory) is written to
// <output>/unknown; the output directory may already hold an entry of that name (a symlink left by
// an earlier root of the same archive, or pre-populated). Nothing outside may change.
func VerifH_C17_ExtractRootFile() {
	ls := vLinkSystem()
	fileL, _, err := builder.BuildUnixFSFile(bytes.NewReader([]byte("PWNED")), "size-2", ls) // chunked: a dag-pb file root
	vAssert("file-built", err == nil)
	out := vFSPath("out")
	outside := vFSPath("outside")
	vFSMkdir(out)
	vFSMkdir(outside)
	vFSWriteFile(outside+"/secret", []byte("secret"))
	names := []string{"unknown", "other"}
	name := names[vChoose("existingName", 2)]
	switch vChoose("existing", 3) {
	case 0:
	case 1:
		vFSSymlink(outside+"/secret", out+"/"+name)
		vCover("symlink-present", name == "unknown")
	case 2:
		vFSWriteFile(out+"/"+name, []byte("old"))
	}
	vFSMarkFor(out)
	_, eerr := ExtractToDir(context.Background(), ls, fileL.(cidlink.Link).Cid, out, []string{}, false, io.Discard)
	vAssert("nothing-outside-output-dir-changed", !vFSOutsideChanged(out))
	sec, ok := vFSReadFile(outside + "/secret")
	vAssert("outside-file-intact", ok && string(sec) == "secret")
	vCover("root-file-extracted", eerr == nil)
}

// VerifH_C17_ExtractDeepNames: a symlink entry with a one-byte name (target "..", "../outside"
// or "." ) followed by an entry whose name is five bytes over {a, b, /} - long enough to route
// through the symlink and two further levels - being a sub-directory or a file.
func VerifH_C17_ExtractDeepNames() {
	ls := vLinkSystem()
	fileL, fsz, err := builder.BuildUnixFSFile(bytes.NewReader([]byte("PWNED")), "", ls)
	vAssert("file-built", err == nil)
	inner, err := builder.BuildUnixFSDirectoryEntry("x", int64(fsz), fileL)
	vAssert("entry-built", err == nil)
	subdirL, _, err := builder.BuildUnixFSDirectory([]dagpb.PBLink{inner}, ls)
	vAssert("subdir-built", err == nil)
	out := vFSPath("out")
	outside := vFSPath("outside")
	vFSMkdir(out)
	vFSMkdir(outside)
	vFSWriteFile(outside+"/secret", []byte("secret"))
	// directories that already exist behind the possible symlink targets, so that a name with two
	// separators through the link has a real directory as its parent
	for _, d := range []string{outside + "/a", outside + "/b", vFSPath("a"), vFSPath("b")} {
		vFSMkdir(d)
	}
	targets := []string{"..", "../outside", "."}
	symL, _, err := builder.BuildUnixFSSymlink(targets[vChoose("target", len(targets))], ls)
	vAssert("symlink-built", err == nil)
	n1 := vBytes("n1", 1)
	vAssume(vOr(n1[0] == 'a', n1[0] == 'b'))
	n2 := vBytes("n2", 5)
	for _, c := range n2 {
		vAssume(vOr(vOr(c == 'a', c == 'b'), c == '/'))
	}
	second := subdirL
	if vChoose("secondIsFile", 2) == 1 {
		second = fileL
	}
	dir := &vDirNode{entries: []vDirEntry{{string(n1), symL}, {string(n2), second}}}
	vFSMarkFor(out)
	_, eerr := extractDir(context.Background(), ls, dir, out, "/", nil, false, io.Discard)
	vAssert("nothing-outside-output-dir-changed", !vFSOutsideChanged(out))
	vCover("deep-extracted", eerr == nil)
	vCover("deep-refused", eerr != nil)
}
