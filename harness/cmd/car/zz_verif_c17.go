package main

import (
	"bytes"
)

// VerifH_C17_ExtractCarOutputArg: `car extract` run from a working directory with an output
// directory argument in several spellings (relative, absolute, through a symlinked component
// followed by "..", with a redundant "./"): everything is written under the directory that the
// operating system resolves the argument to, and nothing else changes - in particular not the
// directory that a lexical clean-up of the argument would name.
func VerifH_C17_ExtractCarOutputArg() {
	vHashCollisionFree(true)
	sb := vFSPath("sb")
	for _, d := range []string{"", "/real", "/real/sub", "/real/out", "/out", "/src"} {
		vFSMkdir(sb + d)
	}
	vFSSymlink("real/sub", sb+"/link")
	data := vBytes("content", 1)
	vFSWriteFile(sb+"/src/a", data)
	vFSWriteFile(sb+"/out/a", []byte("decoy"))
	carPath := sb + "/x.car"
	var sink bytes.Buffer
	err := CreateCar(vCtxArgs(&sink, []string{"file", "version"}, []string{"no-wrap"}, "--file", carPath, "--version", "2", "--no-wrap", sb+"/src"))
	vAssert("create-ok", err == nil)
	vFSChdir(sb)
	forms := []string{"real/out", "link/../out", "./link/../out", sb + "/link/../out", "real/sub/../out", "link/../../real/out"}
	arg := forms[vChoose("outputArg", len(forms))]
	target := sb + "/real/out" // what every spelling resolves to
	vFSMarkFor(target)
	var sink2 bytes.Buffer
	err = ExtractCar(vCtxArgs(&sink2, []string{"file", "path"}, []string{"verbose"}, "--file", carPath, arg))
	vAssert("extract-ok", err == nil)
	vAssert("nothing-outside-output-dir-changed", !vFSOutsideChanged(target))
	got, ok := vFSReadFile(target + "/a")
	vAssert("extracted-into-the-named-directory", ok && vBytesEq(got, data))
	decoy, ok := vFSReadFile(sb + "/out/a")
	vAssert("lexical-neighbour-untouched", ok && string(decoy) == "decoy")
	vCover("through-symlink-dotdot", arg == "link/../out")
	vCover("absolute-through-symlink", arg == sb+"/link/../out")
}
