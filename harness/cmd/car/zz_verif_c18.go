package main

import (
	"bytes"
	"flag"
	"os"

	"github.com/ipld/go-car/cmd/car/lib"
	carv2 "github.com/ipld/go-car/v2"
	"github.com/urfave/cli/v2"
)

// vCtxArgs builds a cli.Context by parsing real command-line arguments (so that IsSet works).
func vCtxArgs(out *bytes.Buffer, stringFlags []string, boolFlags []string, args ...string) *cli.Context {
	set := flag.NewFlagSet("car", flag.ContinueOnError)
	for _, f := range stringFlags {
		set.String(f, "", "")
	}
	for _, f := range boolFlags {
		set.Bool(f, false, "")
	}
	if err := set.Parse(args); err != nil {
		panic("vCtxArgs: " + err.Error())
	}
	app := &cli.App{Writer: out, ErrWriter: out}
	return cli.NewContext(app, set, nil)
}

// VerifH_C18_CreateThenExtract: a small tree (a file with arbitrary 2-byte content, optionally a
// second file with arbitrary content that may equal the first, a symlink, a sub-directory with an
// empty or one-byte file) is packed with the real `car create` (CARv1 or CARv2, wrapped or --no-wrap) and unpacked
// with the real `car extract`: names, file contents and link targets are reproduced, the archive
// has a single root, and inspection and verification accept it.
func VerifH_C18_CreateThenExtract() {
	vHashCollisionFree(true)
	src := vFSPath("tree")
	vFSMkdir(src)
	n1 := 2
	if vTier() == 1 {
		n1 = vChoose("f1len", 4) // 0..3 bytes, the empty file included
	}
	f1 := vBytes("f1", n1)
	vFSWriteFile(src+"/a", f1)
	shape := vChoose("shape", 6)
	var f2 []byte
	switch shape {
	case 1:
		f2 = vBytes("f2", 2) // may equal f1: identical blocks are de-duplicated
		vFSWriteFile(src+"/b", f2)
	case 2:
		vFSSymlink("a", src+"/l")
	case 4:
		// an empty directory and a directory that holds only an empty directory
		vFSMkdir(src + "/e")
		vFSMkdir(src + "/p")
		vFSMkdir(src + "/p/q")
	case 5:
		// two files given as two source arguments (wrapped mode only); their contents may be equal
		f2 = vBytes("f2", 2)
		vFSWriteFile(src+"/b", f2)
	case 3:
		vFSMkdir(src + "/d")
		f2 = vBytes("f2", vChoose("nestedLen", 2)) // an empty or a one-byte file
		vFSWriteFile(src+"/d/g", f2)
	}
	carPath := vFSPath("out.car")
	version := "2"
	if vChoose("v1", 2) == 1 {
		version = "1"
	}
	noWrap := vChoose("noWrap", 2) == 1
	if shape == 5 {
		noWrap = false
	}
	var sink bytes.Buffer
	args := []string{"--file", carPath, "--version", version}
	if noWrap {
		args = append(args, "--no-wrap")
	}
	if shape == 5 {
		args = append(args, src+"/a", src+"/b")
	} else {
		args = append(args, src)
	}
	err := CreateCar(vCtxArgs(&sink, []string{"file", "version"}, []string{"no-wrap"}, args...))
	vAssert("create-ok", err == nil)
	file, ok := vFSReadFile(carPath)
	vAssert("archive-written", ok)
	rd, rerr := carv2.NewReader(bytes.NewReader(file))
	vAssert("archive-opens", rerr == nil)
	roots, rooterr := rd.Roots()
	vAssert("single-root", rooterr == nil && len(roots) == 1)
	stats, ierr := rd.Inspect(true)
	vAssert("inspect-accepts", ierr == nil)
	// the placeholder root was replaced by a block that is in the archive, and `car root` reports it
	vAssert("root-block-present", ierr == nil && stats.RootsPresent)
	printed, perr := lib.CarRoot(carPath)
	vAssert("car-root-is-the-single-root", perr == nil && len(printed) == 1 && printed[0].Equals(roots[0]))
	vAssert("verify-accepts", lib.VerifyCar(carPath) == nil)

	dst := vFSPath("extracted")
	vFSMkdir(dst)
	var sink2 bytes.Buffer
	if vChoose("fromStdin", 2) == 1 {
		// extraction from standard input: the streaming store fed by a goroutine
		ctx := vCtxArgs(&sink2, []string{"file", "path"}, []string{"verbose"}, dst)
		ctx.App.Reader = bytes.NewReader(file)
		err = ExtractCar(ctx)
		vCover("extracted-from-stdin", err == nil)
	} else {
		err = ExtractCar(vCtxArgs(&sink2, []string{"file", "path"}, []string{"verbose"}, "--file", carPath, dst))
	}
	vAssert("extract-ok", err == nil)
	base := dst + "/tree"
	if noWrap || shape == 5 {
		base = dst // the sources sit directly under the wrapping directory
	}
	got, ok := vFSReadFile(base + "/a")
	vAssert("file-a-content", ok && vBytesEq(got, f1))
	switch shape {
	case 1:
		got2, ok := vFSReadFile(base + "/b")
		vAssert("file-b-content", ok && vBytesEq(got2, f2))
		vCover("identical-files", vBytesEq(f1, f2))
	case 4:
		vAssert("empty-directory-kept", vFSExists(base+"/e") && vFSExists(base+"/p/q"))
		vCover("empty-directories-roundtrip", true)
	case 5:
		got2, ok := vFSReadFile(base + "/b")
		vAssert("second-source-content", ok && vBytesEq(got2, f2))
		vCover("two-sources-identical", vBytesEq(f1, f2))
	case 2:
		t, lerr := os.Readlink(base + "/l")
		vAssert("symlink-target", lerr == nil && t == "a")
		vCover("symlink-roundtrip", true)
	case 3:
		got2, ok := vFSReadFile(base + "/d/g")
		vAssert("nested-file-content", ok && vBytesEq(got2, f2))
		vCover("nested-roundtrip", true)
		vCover("empty-file-roundtrip", len(f2) == 0)
	}
	vCover("v1-nowrap", version == "1" && noWrap)
	vCover("v2-wrapped", version == "2" && !noWrap)
}
