package main

import (
	"bytes"
	"flag"
	"os"

	"github.com/ipfs/go-cid"
	carv1 "github.com/ipld/go-car"
	"github.com/ipld/go-car/cmd/car/lib"
	carv2 "github.com/ipld/go-car/v2"
	"github.com/ipld/go-car/v2/index"
	"github.com/ipld/go-car/v2/storage"
	"github.com/urfave/cli/v2"
)

type vBlk struct {
	c    cid.Cid
	data []byte
}

// vValidBlk: a block from the collision alphabet whose data hashes to its CID.
func vValidBlk(tag string) vBlk {
	c := vCidT(tag)
	if c.Prefix().MhType == 0 {
		return vBlk{c, vIdentityPayload(c)}
	}
	maxLen := 1
	if vTier() == 1 {
		maxLen = 2
	}
	data := vBytes(tag+".data", vChoose(tag+".len", maxLen+1))
	vAssume(vValidBlock(c, data))
	return vBlk{c, data}
}

type vMemFile struct {
	data []byte
	pos  int
}

func (f *vMemFile) Write(p []byte) (int, error) {
	n, _ := f.WriteAt(p, int64(f.pos))
	f.pos += n
	return n, nil
}
func (f *vMemFile) WriteAt(p []byte, off int64) (int, error) {
	if len(f.data) < int(off)+len(p) {
		f.data = append(f.data, make([]byte, int(off)+len(p)-len(f.data))...)
	}
	copy(f.data[off:], p)
	return len(p), nil
}

// vBuildCar writes a CAR with the library's storage writer: roots = the first block's CID.
func vBuildCar(blocks []vBlk, opts ...carv2.Option) []byte {
	return vBuildCarRoots([]cid.Cid{blocks[0].c}, blocks, opts...)
}

func vBuildCarRoots(roots []cid.Cid, blocks []vBlk, opts ...carv2.Option) []byte {
	f := &vMemFile{}
	w, err := storage.NewWritable(f, roots, opts...)
	if err != nil {
		panic("vBuildCar: " + err.Error())
	}
	for _, b := range blocks {
		if err := w.Put(nil, b.c.KeyString(), b.data); err != nil {
			panic("vBuildCar put: " + err.Error())
		}
	}
	if err := w.Finalize(); err != nil {
		panic("vBuildCar finalize: " + err.Error())
	}
	return f.data
}

func vCtx(out *bytes.Buffer, flags map[string]string, args ...string) *cli.Context {
	set := flag.NewFlagSet("car", flag.ContinueOnError)
	for k, v := range flags {
		set.String(k, v, "")
	}
	if err := set.Parse(args); err != nil {
		panic("vCtx: " + err.Error())
	}
	app := &cli.App{Writer: out}
	return cli.NewContext(app, set, nil)
}

func vScanBlocks(file []byte) ([]vBlk, []cid.Cid, bool) {
	br, err := carv2.NewBlockReader(bytes.NewReader(file))
	if err != nil {
		return nil, nil, false
	}
	var out []vBlk
	for i := 0; i < 8; i++ {
		b, err := br.Next()
		if err != nil {
			return out, br.Roots, err.Error() == "EOF"
		}
		out = append(out, vBlk{b.Cid(), b.RawData()})
	}
	return out, br.Roots, false
}

// VerifH_C19_VerifyAcceptsWellFormed: `car verify` accepts every well-formed archive whose roots
// are among its blocks: CARv1, and CARv2 with any data/index padding, with an index or without one.
func VerifH_C19_VerifyAcceptsWellFormed() {
	blocks := []vBlk{vValidBlk("b1"), vValidBlk("b2")}
	vAssume(blocks[0].c.Prefix().MhType != 0) // the root must be stored as a block
	var opts []carv2.Option
	shape := vChoose("shape", 4)
	switch shape {
	case 0:
		opts = append(opts, carv2.WriteAsCarV1(true))
	case 1:
	case 2:
		opts = append(opts, carv2.UseDataPadding(uint64(3+vChoose("dataPad", 2))))
		opts = append(opts, carv2.UseIndexPadding(uint64(2*vChoose("indexPad", 2))))
	}
	file := vBuildCar(blocks, opts...)
	if shape == 3 {
		// index-less CARv2: strip the index, clear the index offset (what `car index --codec none` emits)
		rd, err := carv2.NewReader(bytes.NewReader(file))
		vAssert("reader", err == nil)
		end := rd.Header.DataOffset + rd.Header.DataSize
		file = append([]byte{}, file[:end]...)
		for i := 43; i < 51; i++ {
			file[i] = 0
		}
		vCover("indexless-v2", true)
	}
	path := vFSPath("in.car")
	vFSWriteFile(path, file)
	err := lib.VerifyCar(path)
	vAssert("verify-accepts", err == nil)
	vCover("v1", shape == 0)
	vCover("v2-padded", shape == 2)
}

var _ = carv1.HeaderSize
var _ = index.CarIndexNone

func vAcceptedByInspectAndVerify(tagp string, path string, file []byte, rootsAmongBlocks bool) {
	rd, err := carv2.NewReader(bytes.NewReader(file))
	vAssert(tagp+"output-opens", err == nil)
	if err != nil {
		return
	}
	_, err = rd.Inspect(true)
	vAssert(tagp+"inspect-full-accepts", err == nil)
	// the command itself: car inspect --full
	f, ferr := os.Open(path)
	vAssert(tagp+"output-opens-as-file", ferr == nil)
	_, cerr := lib.InspectCar(f, true)
	f.Close()
	vAssert(tagp+"car-inspect-full-accepts", cerr == nil)
	if rootsAmongBlocks {
		vAssert(tagp+"verify-accepts", lib.VerifyCar(path) == nil)
	}
}

func vSameBlocks(a, b []vBlk) bool {
	if len(a) != len(b) {
		return false
	}
	for i := range a {
		if !a[i].c.Equals(b[i].c) || !vBytesEq(a[i].data, b[i].data) {
			return false
		}
	}
	return true
}

// vInputCar: a two-block archive as CARv1, CARv2, or padded CARv2.
func vInputCar(blocks []vBlk) []byte {
	switch vChoose("inputShape", 3) {
	case 0:
		return vBuildCar(blocks, carv2.WriteAsCarV1(true))
	case 1:
		return vBuildCar(blocks)
	default:
		return vBuildCar(blocks, carv2.UseDataPadding(5), carv2.UseIndexPadding(3))
	}
}

func vPayloadOf(file []byte) []byte {
	rd, err := carv2.NewReader(bytes.NewReader(file))
	if err != nil {
		panic("vPayloadOf")
	}
	if rd.Version == 1 {
		return file
	}
	return file[rd.Header.DataOffset : rd.Header.DataOffset+rd.Header.DataSize]
}

// VerifH_C19_IndexCommand: `car index` (codec none / sorted / multihash-sorted, --version 1|2) emits
// the payload unchanged, in a container that inspect --full and verify accept, with an index that
// resolves every non-identity block to its true offset.
func VerifH_C19_IndexCommand() {
	blocks := []vBlk{vValidBlk("b1"), vValidBlk("b2")}
	vAssume(blocks[0].c.Prefix().MhType != 0)
	if vChoose("firstSectionAtVarintBoundary", 2) == 1 {
		// CID 6 bytes + 121/122 data bytes = a section of 127/128 bytes: its length prefix and the
		// length prefix of its data alone differ in size
		c := vCidT("big")
		vAssume(c.Prefix().MhType != 0)
		data := vBytes("big.data", 121+vChoose("big.len", 2))
		vAssume(vValidBlock(c, data))
		blocks[0] = vBlk{c, data}
	}
	vAssume(!vBytesEq(blocks[0].c.Hash(), blocks[1].c.Hash()))
	in := vInputCar(blocks)
	inPath, outPath := vFSPath("in.car"), vFSPath("out.car")
	vFSWriteFile(inPath, in)
	codecs := []string{"none", "car-index-sorted", "car-multihash-index-sorted"}
	codec := codecs[vChoose("codec", 3)]
	version := "2"
	if codec == "none" && vChoose("v1out", 2) == 1 {
		version = "1"
	}
	// the destination is absent, or an unrelated file longer than anything the command writes
	staleDest := vChoose("existingLongerDestination", 2) == 1
	if staleDest {
		vFSWriteFile(outPath, vBytes("old", 400))
	}
	var out bytes.Buffer
	err := IndexCar(vCtx(&out, map[string]string{"codec": codec, "version": version}, inPath, outPath))
	vAssert("index-ok", err == nil)
	got, ok := vFSReadFile(outPath)
	vAssert("output-written", ok)
	vAssert("payload-unchanged", vBytesEq(vPayloadOf(got), vPayloadOf(in)))
	if version == "1" {
		vAssert("v1-output-is-exactly-the-payload", vBytesEq(got, vPayloadOf(in)))
	}
	vAcceptedByInspectAndVerify("", outPath, got, true)
	vCover("replaced-longer-destination", staleDest && version == "1")
	if version == "2" && codec != "none" {
		rd, _ := carv2.NewReader(bytes.NewReader(got))
		ir, ierr := rd.IndexReader()
		vAssert("has-index", ierr == nil && ir != nil)
		idx, rerr := index.ReadFrom(ir)
		vAssert("index-readable", rerr == nil)
		want, gerr := carv2.GenerateIndex(bytes.NewReader(vPayloadOf(in)))
		vAssert("regenerated", gerr == nil)
		for _, b := range blocks {
			if b.c.Prefix().MhType == 0 {
				continue
			}
			o1, e1 := index.GetFirst(idx, b.c)
			o2, e2 := index.GetFirst(want, b.c)
			vAssert("index-equals-regenerated", e1 == nil && e2 == nil && o1 == o2)
		}
		vCover("indexed-output", true)
	}
	vCover("codec-none-v2", codec == "none" && version == "2")
	vCover("v1-output", version == "1")
}

// VerifH_C19_DetachAndConcat: detach-index emits exactly the embedded index bytes; concat of two
// archives yields, under the first input's roots, the concatenation of both block sequences, in a
// file that inspect --full and verify accept (--version 1; --version 2 is a listed known finding).
func VerifH_C19_DetachAndConcat() {
	b1 := []vBlk{vValidBlk("a1"), vValidBlk("a2")}
	b2 := []vBlk{vValidBlk("c1")}
	vAssume(b1[0].c.Prefix().MhType != 0)
	in1 := vInputCar(b1)
	// the second input's header may differ in size from the first one's (two roots)
	roots2 := []cid.Cid{b2[0].c}
	if vChoose("secondTwoRoots", 2) == 1 {
		roots2 = append(roots2, b2[0].c)
	}
	in2 := vBuildCarRoots(roots2, b2, carv2.WriteAsCarV1(vChoose("second-v1", 2) == 1))
	p1, p2, outPath := vFSPath("one.car"), vFSPath("two.car"), vFSPath("out.car")
	vFSWriteFile(p1, in1)
	vFSWriteFile(p2, in2)
	var sink bytes.Buffer
	if vChoose("cmd", 2) == 0 {
		rd, _ := carv2.NewReader(bytes.NewReader(in1))
		err := DetachCar(vCtx(&sink, nil, p1, outPath))
		if rd.Version == 1 {
			vAssert("detach-v1-refused", err != nil)
			return
		}
		vAssert("detach-ok", err == nil)
		got, ok := vFSReadFile(outPath)
		vAssert("detach-output", ok && vBytesEq(got, in1[rd.Header.IndexOffset:]))
		vCover("detached", true)
		return
	}
	version := "1"
	if vChoose("concatV2", 2) == 1 {
		version = "2"
	}
	err := ConcatCar(vCtx(&sink, map[string]string{"output": outPath, "version": version}, p1, p2))
	vAssert("concat-ok", err == nil)
	got, ok := vFSReadFile(outPath)
	vAssert("concat-output", ok)
	blks, roots, clean := vScanBlocks(got)
	vAssert("concat-scans-clean", clean)
	// de-duplication is not part of concat: the block sequences are appended as they are; the
	// inputs themselves hold the stored (de-duplicated, identity-skipped) sequences
	s1, _, _ := vScanBlocks(in1)
	s2, _, _ := vScanBlocks(in2)
	vAssert("concat-is-concatenation", vSameBlocks(blks, append(append([]vBlk{}, s1...), s2...)))
	vAssert("concat-roots-of-first", len(roots) == 1 && roots[0].Equals(b1[0].c))
	vAcceptedByInspectAndVerify("concat-", outPath, got, true)
	vCover("concatenated", true)
}

// VerifH_C19_FilterCommand: filter keeps exactly the selected blocks (or their complement with
// inverse) in source order, in an archive that inspect --full accepts.
func VerifH_C19_FilterCommand() {
	blocks := []vBlk{vValidBlk("b1"), vValidBlk("b2")}
	vAssume(blocks[0].c.Prefix().MhType != 0 && blocks[1].c.Prefix().MhType != 0)
	vAssume(!vBytesEq(blocks[0].c.Hash(), blocks[1].c.Hash()))
	in := vInputCar(blocks)
	inPath, outPath := vFSPath("in.car"), vFSPath("out.car")
	vFSWriteFile(inPath, in)
	sel := map[cid.Cid]struct{}{}
	pick := vChoose("select", 3) // 0: first, 1: second, 2: both
	if pick == 0 || pick == 2 {
		sel[blocks[0].c] = struct{}{}
	}
	if pick == 1 || pick == 2 {
		sel[blocks[1].c] = struct{}{}
	}
	inverse := vBool("inverse")
	version := 1 + vChoose("version2", 2)
	// state of the destination: absent, an unrelated longer file (must be replaced), or - with
	// --append - a finalized CARv2 holding one block, which the selected blocks are added to
	dest := vChoose("destState", 3)
	appendOut := false
	var have []vBlk
	switch dest {
	case 1:
		vFSWriteFile(outPath, vBytes("old", 300))
	case 2:
		e := vValidBlk("e")
		vAssume(e.c.Prefix().MhType != 0)
		for _, b := range blocks {
			vAssume(vImplies(vBytesEq(b.c.Hash(), e.c.Hash()), vBytesEq(b.data, e.data)))
		}
		vFSWriteFile(outPath, vBuildCar([]vBlk{e}))
		have = []vBlk{e}
		appendOut = true
		version = 2
	}
	err := lib.FilterCar(nil, inPath, outPath, sel, inverse, version, appendOut)
	vAssert("filter-ok", err == nil)
	got, ok := vFSReadFile(outPath)
	vAssert("filter-output", ok)
	want := append([]vBlk{}, have...)
	for _, b := range blocks {
		_, in := sel[b.c]
		dup := false
		for _, w := range want {
			if vBytesEq(w.c.Hash(), b.c.Hash()) {
				dup = true // appended to an archive that already holds the block
			}
		}
		if in != inverse && !dup {
			want = append(want, b)
		}
	}
	blks, outRoots, clean := vScanBlocks(got)
	vAssert("filter-scans-clean", clean)
	vAssert("filter-keeps-selected-in-order", vSameBlocks(blks, want))
	rootKept := false
	for _, b := range want {
		if b.c.Equals(blocks[0].c) {
			rootKept = true
		}
	}
	if appendOut {
		vAssert("append-keeps-the-existing-roots", len(outRoots) == 1 && outRoots[0].Equals(have[0].c))
		rootKept = true
		vCover("appended", len(want) > 1)
	}
	vCover("replaced-existing-file", dest == 1)
	vAcceptedByInspectAndVerify("filter-", outPath, got, rootKept)
	vCover("filtered-inverse", len(want) == 1)
	vCover("filtered-empty", len(want) == 0)
}
