package main

import (
	"bytes"

	"github.com/ipfs/go-cid"
	"github.com/multiformats/go-multihash"
)

// vConcreteBlk: a block with concrete bytes under its real sha2-256 CID (the CID list of `car
// filter` is text, so the selected CIDs must be printable).
func vConcreteBlk(k byte) vBlk {
	data := []byte{k}
	mh, err := multihash.Sum(data, multihash.SHA2_256, -1)
	if err != nil {
		panic("vConcreteBlk")
	}
	return vBlk{cid.NewCidV1(cid.Raw, mh), data}
}

// vSpace: an arbitrary byte among the separators that a CID list may contain around its lines.
func vSpace(tag string) byte {
	b := vU8(tag)
	vAssume(vOr(vOr(b == ' ', b == '\t'), vOr(b == '\r', b == '\n')))
	return b
}

// VerifH_C19_FilterCidList: `car filter` driven through its command function with a CID list file
// whose layout is arbitrary within what a list may look like: 0..1 white-space bytes before the
// first CID, a newline plus 0..1 white-space bytes between the two, 0..2 white-space bytes after
// the last (so: with or without a final newline, CRLF, blank lines, trailing blanks): exactly the
// listed blocks (or their complement with --inverse) are kept, in source order, in an archive that
// inspection accepts.
func VerifH_C19_FilterCidList() {
	blocks := []vBlk{vConcreteBlk(1), vConcreteBlk(2)}
	in := vInputCar(blocks)
	inPath, outPath, listPath := vFSPath("in.car"), vFSPath("out.car"), vFSPath("cids.txt")
	vFSWriteFile(inPath, in)
	pick := vChoose("select", 4) // first, second, first+second, second+first
	var order []int
	switch pick {
	case 0:
		order = []int{0}
	case 1:
		order = []int{1}
	case 2:
		order = []int{0, 1}
	default:
		order = []int{1, 0}
	}
	var list []byte
	for i := vChoose("leading", 2); i > 0; i-- {
		list = append(list, vSpace("lead"))
	}
	for i, k := range order {
		if i > 0 {
			list = append(list, '\n')
			for j := vChoose("between", 2); j > 0; j-- {
				list = append(list, vSpace("mid"))
			}
		}
		list = append(list, []byte(blocks[k].c.String())...)
	}
	for i := vChoose("trailing", 3); i > 0; i-- {
		list = append(list, vSpace("tail"))
	}
	vFSWriteFile(listPath, list)
	inverse := vBool("inverse")
	version := "1"
	if vChoose("version2", 2) == 1 {
		version = "2"
	}
	args := []string{"--cid-file", listPath, "--version", version}
	if inverse {
		args = append(args, "--inverse")
	}
	args = append(args, inPath, outPath)
	var sink bytes.Buffer
	err := FilterCar(vCtxArgs(&sink, []string{"cid-file", "version"}, []string{"inverse", "append"}, args...))
	vAssert("filter-ok", err == nil)
	got, ok := vFSReadFile(outPath)
	vAssert("filter-output", ok)
	var want []vBlk
	for k, b := range blocks {
		listed := false
		for _, o := range order {
			if o == k {
				listed = true
			}
		}
		if listed != inverse {
			want = append(want, b)
		}
	}
	blks, _, clean := vScanBlocks(got)
	vAssert("filter-scans-clean", clean)
	vAssert("filter-keeps-listed-in-source-order", vSameBlocks(blks, want))
	vCover("list-without-final-newline", len(list) > 0 && list[len(list)-1] != '\n' && len(want) > 0)
	vCover("list-crlf", len(order) == 2 && inverse == false && len(want) == 2)
}
