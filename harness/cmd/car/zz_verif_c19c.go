package main

import (
	"bytes"

	"github.com/ipfs/go-cid"
	"github.com/ipld/go-ipld-prime/codec/dagcbor"
	"github.com/ipld/go-ipld-prime/datamodel"
	"github.com/ipld/go-ipld-prime/fluent/qp"
	cidlink "github.com/ipld/go-ipld-prime/linking/cid"
	"github.com/ipld/go-ipld-prime/node/basicnode"
	"github.com/multiformats/go-multihash"
)

func vShaCid(codec uint64, data []byte) cid.Cid {
	mh, err := multihash.Sum(data, multihash.SHA2_256, -1)
	if err != nil {
		panic("vShaCid")
	}
	return cid.NewCidV1(codec, mh)
}

// VerifH_C19_GetDag: `car get-dag` (--version 1 and 2, root taken from the archive) over an input
// that holds a DAG {dag-cbor root -> raw leaves a, b with arbitrary bytes} with the link list drawn
// from {[a], [a,b], [a,a], [b,a]} and an unrelated block stored before, between or after the DAG's
// blocks: the output holds exactly the DAG's blocks - root, then the distinct leaves in link order -
// under the same root, the unrelated block is left out, and inspection and verification accept it.
func VerifH_C19_GetDag() {
	vHashCollisionFree(true)
	da, db, dx := vBytes("a", 1), vBytes("b", 1), vBytes("x", 2)
	ca, cb, cx := vShaCid(cid.Raw, da), vShaCid(cid.Raw, db), vShaCid(cid.Raw, dx)
	shapes := [][]cid.Cid{{ca}, {ca, cb}, {ca, ca}, {cb, ca}}
	shape := vChoose("shape", len(shapes))
	links := shapes[shape]
	rootNode, err := qp.BuildList(basicnode.Prototype.Any, int64(len(links)), func(la datamodel.ListAssembler) {
		for _, l := range links {
			qp.ListEntry(la, qp.Link(cidlink.Link{Cid: l}))
		}
	})
	if err != nil {
		panic("root node")
	}
	var rootBuf bytes.Buffer
	if err := dagcbor.Encode(rootNode, &rootBuf); err != nil {
		panic("root encode")
	}
	root := vShaCid(cid.DagCBOR, rootBuf.Bytes())
	dag := []vBlk{{root, rootBuf.Bytes()}, {ca, da}, {cb, db}}
	extra := vBlk{cx, dx}
	var stored []vBlk
	pos := vChoose("extraAt", 3)
	for i, b := range dag {
		if i == pos {
			stored = append(stored, extra)
		}
		stored = append(stored, b)
	}
	if pos >= len(dag) {
		stored = append(stored, extra)
	}
	in := vBuildCarRoots([]cid.Cid{root}, stored)
	inPath, outPath := vFSPath("in.car"), vFSPath("dag.car")
	vFSWriteFile(inPath, in)
	version := "1"
	if vChoose("version2", 2) == 1 {
		version = "2"
	}
	if vChoose("existingOutput", 2) == 1 {
		// the output path already holds a finalized archive with the same root and a block that
		// is not part of the DAG (what an earlier, wider get-dag would have left)
		vFSWriteFile(outPath, vBuildCarRoots([]cid.Cid{root}, []vBlk{dag[0], extra}))
		vCover("replaced-existing-output", true)
	}
	var sink bytes.Buffer
	err = GetCarDag(vCtxArgs(&sink, []string{"version", "selector"}, []string{"strict"}, "--version", version, inPath, outPath))
	vAssert("get-dag-ok", err == nil)
	got, ok := vFSReadFile(outPath)
	vAssert("get-dag-output", ok)
	want := []vBlk{dag[0]}
	for _, l := range links {
		seen := false
		for _, w := range want {
			if w.c.Equals(l) {
				seen = true
			}
		}
		if !seen {
			if l.Equals(ca) {
				want = append(want, dag[1])
			} else {
				want = append(want, dag[2])
			}
		}
	}
	blks, roots, clean := vScanBlocks(got)
	vAssert("output-scans-clean", clean)
	vAssert("output-root-is-the-dag-root", len(roots) == 1 && roots[0].Equals(root))
	vAssert("output-is-exactly-the-dag-in-visit-order", vSameBlocks(blks, want))
	vAcceptedByInspectAndVerify("get-dag-", outPath, got, true)
	vCover("shared-leaf", len(links) == 2 && links[0].Equals(links[1]))
	vCover("version-2", version == "2")
	vCover("leaves-with-equal-bytes", vBytesEq(da, db) && shape == 1)
}
