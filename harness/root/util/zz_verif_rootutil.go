package util

import (
	"bufio"
	"bytes"
	"encoding/binary"
	"io"
)

type vStream struct {
	data []byte
	pos  int
}

func (s *vStream) Read(p []byte) (int, error) {
	if len(p) == 0 {
		return 0, nil
	}
	if s.pos >= len(s.data) {
		return 0, io.EOF
	}
	n := copy(p, s.data[s.pos:])
	s.pos += n
	return n, nil
}

// VerifH_C01_RootFrameRoundTrip: root-module LdWrite/LdSize/ReadNode round trip for every CID of a
// 6-byte alphabet and payloads of 0..3 bytes with arbitrary trailing bytes.
func VerifH_C01_RootFrameRoundTrip() {
	ck, nmax, tn := 6, 4, 2
	if vTier() == 1 {
		ck, nmax, tn = 8, 9, 4
	}
	c := vCidRaw("cid", ck)
	n := vChoose("dataLen", nmax)
	data := vBytes("data", n)
	tail := vBytes("tail", tn)
	var w bytes.Buffer
	err := LdWrite(&w, c.Bytes(), data)
	vAssert("write-ok", err == nil)
	vAssert("size-predicted", LdSize(c.Bytes(), data) == uint64(w.Len()))
	pre := make([]byte, 10)
	k := binary.PutUvarint(pre, uint64(len(c.Bytes())+n))
	want := append(append(append([]byte{}, pre[:k]...), c.Bytes()...), data...)
	vAssert("exact-frame-bytes", vBytesEq(w.Bytes(), want))
	src := &vStream{data: append(append([]byte{}, w.Bytes()...), tail...)}
	br := bufio.NewReader(src)
	c2, d2, err := ReadNode(br)
	vAssert("read-ok", err == nil)
	vAssert("same-cid", c2.Equals(c))
	vAssert("same-data", vBytesEq(d2, data))
	// the bufio reader has consumed exactly the section: the next bytes are the tail
	rest, _ := io.ReadAll(br)
	vAssert("stops-at-section-end", vBytesEq(rest, tail))
	vCover("roundtrip", n == 3)
}

// VerifH_C09_RootLdRead: root LdRead on arbitrary bytes: no panic, length above the limit is
// rejected, truncation is never a clean EOF once a byte was consumed.
func VerifH_C09_RootLdRead() {
	N := 12
	if vTier() == 1 {
		N = 16
	}
	in := vBytes("in", N)
	n := vInt("n")
	vAssume(n >= 0 && n <= N)
	src := &vStream{data: in[:n]}
	br := bufio.NewReader(src)
	buf, err := LdRead(br)
	vAssert("within-limit", err != nil || uint64(len(buf)) <= uint64(MaxAllowedSectionSize))
	vAssert("clean-eof-only-on-empty", err != io.EOF || n == 0)
	vCover("read-some", err == nil && len(buf) > 0)
	vCover("clean-eof", err == io.EOF)
	vCover("unexpected-eof", err == io.ErrUnexpectedEOF)
}
