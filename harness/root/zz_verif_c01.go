package car

import (
	"bytes"
	"context"
	"errors"
	"io"

	"github.com/ipfs/go-cid"
	format "github.com/ipfs/go-ipld-format"
)

// vNode is a format.Node with given bytes and links (the DAG service of the harness).
type vNode struct {
	c     cid.Cid
	data  []byte
	links []*format.Link
}

func (n *vNode) RawData() []byte                  { return n.data }
func (n *vNode) Cid() cid.Cid                     { return n.c }
func (n *vNode) String() string                   { return "vNode" }
func (n *vNode) Loggable() map[string]interface{} { return nil }
func (n *vNode) Resolve(path []string) (interface{}, []string, error) {
	return nil, nil, errors.New("vNode")
}
func (n *vNode) Tree(path string, depth int) []string { return nil }
func (n *vNode) ResolveLink(path []string) (*format.Link, []string, error) {
	return nil, nil, errors.New("vNode")
}
func (n *vNode) Copy() format.Node               { return n }
func (n *vNode) Links() []*format.Link           { return n.links }
func (n *vNode) Stat() (*format.NodeStat, error) { return &format.NodeStat{}, nil }
func (n *vNode) Size() (uint64, error)           { return uint64(len(n.data)), nil }

type vDag struct{ nodes []*vNode }

func (d *vDag) Get(ctx context.Context, c cid.Cid) (format.Node, error) {
	for _, n := range d.nodes {
		if n.c.Equals(c) {
			return n, nil
		}
	}
	return nil, errors.New("vDag: not found")
}

func (d *vDag) GetMany(ctx context.Context, cs []cid.Cid) <-chan *format.NodeOption {
	panic("vDag.GetMany")
}

// VerifH_C01_RootWriteCar: the root-module writer over an arbitrary DAG on three nodes (every
// subset of the forward links 0->1, 0->2, 1->2, 0->2 possibly listed twice) and an arbitrary root
// list of one or two of them (repeats allowed) emits header + each reachable node exactly once, in
// depth-first first-visit order across all the roots, and the root-module reader returns exactly
// that (CID, bytes) sequence and then io.EOF.
func VerifH_C01_RootWriteCar() {
	ns := []*vNode{vNodeID(0), vNodeID(1), vNodeID(2)}
	link := func(from, to int) { ns[from].links = append(ns[from].links, &format.Link{Cid: ns[to].c}) }
	if vChoose("l01", 2) == 1 {
		link(0, 1)
	}
	for i := vChoose("l02", 3); i > 0; i-- {
		link(0, 2)
	}
	if vChoose("l12", 2) == 1 {
		link(1, 2)
	}
	nroots := 1 + vChoose("nroots", 2)
	var roots []cid.Cid
	var rootIdx []int
	for i := 0; i < nroots; i++ {
		k := vChoose("root", 3)
		roots = append(roots, ns[k].c)
		rootIdx = append(rootIdx, k)
	}
	// reference: depth-first pre-order with one visited set for the whole archive
	var want []int
	seen := [3]bool{}
	var visit func(k int)
	visit = func(k int) {
		if seen[k] {
			return
		}
		seen[k] = true
		want = append(want, k)
		for _, l := range ns[k].links {
			for j := range ns {
				if ns[j].c.Equals(l.Cid) {
					visit(j)
				}
			}
		}
	}
	for _, k := range rootIdx {
		visit(k)
	}
	var out bytes.Buffer
	err := WriteCar(context.Background(), &vDag{ns}, roots, &out)
	vAssert("write-ok", err == nil)
	cr, err := NewCarReader(bytes.NewReader(out.Bytes()))
	vAssert("reader-open", err == nil && len(cr.Header.Roots) == nroots)
	for i := range roots {
		vAssert("roots-kept", cr.Header.Roots[i].Equals(roots[i]))
	}
	for _, k := range want {
		blk, err := cr.Next()
		vAssert("next-in-first-visit-order", err == nil && blk.Cid().Equals(ns[k].c) && vBytesEq(blk.RawData(), ns[k].data))
	}
	_, err = cr.Next()
	vAssert("each-node-once-then-eof", err == io.EOF)
	vCover("shared-subdag-under-two-roots", nroots == 2 && rootIdx[0] != rootIdx[1] && len(want) == 3 && len(ns[1].links) == 1)
	vCover("same-root-twice", nroots == 2 && rootIdx[0] == rootIdx[1])
}

// vNodeID: node k holds the two bytes {k, arbitrary} under their identity CID, so that the three
// CIDs are distinct and the reader's hash verification accepts them.
func vNodeID(k int) *vNode {
	data := []byte{byte(k), vU8("payload")}
	c, err := cid.Cast(append([]byte{1, 0x55, 0, 2}, data...))
	if err != nil {
		panic("vNodeID")
	}
	return &vNode{c: c, data: data}
}

// VerifH_C15_RootWriteCarOnce: the root-module traversal writer is also C15's subject ("exactly the
// visited blocks, once, in first-visit order"): the same harness as VerifH_C01_RootWriteCar.
func VerifH_C15_RootWriteCarOnce() { VerifH_C01_RootWriteCar() }
