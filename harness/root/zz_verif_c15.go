package car

import (
	"bytes"
	"context"
	"errors"

	blocks "github.com/ipfs/go-block-format"
	"github.com/ipfs/go-cid"
	util "github.com/ipld/go-car/util"
	"github.com/ipld/go-ipld-prime"
	cidlink "github.com/ipld/go-ipld-prime/linking/cid"
)

type vBlk struct {
	c    cid.Cid
	data []byte
}

type vStore struct {
	blks []vBlk
}

func (s *vStore) Get(ctx context.Context, c cid.Cid) (blocks.Block, error) {
	for _, b := range s.blks {
		if b.c.Equals(c) {
			return blocks.NewBlockWithCid(b.data, c)
		}
	}
	return nil, errors.New("vStore: not found")
}

// VerifH_C15_RootSelectiveLoader: the root-module selective writer with the traversal replaced by
// an arbitrary sequence of up to 3 (thorough 4) block loads over two blocks whose CIDs may share a
// multihash under different codecs: every distinct CID loaded is emitted exactly once, in
// first-load order, every block callback reports the true offset and size of its section, the
// announced size equals the bytes written, and Dump reproduces Write's bytes.
func VerifH_C15_RootSelectiveLoader() {
	L := 3
	if vTier() == 1 {
		L = 4
	}
	blks := []vBlk{
		{vCidT("b0"), vBytes("d0", vChoose("n0", 3))},
		{vCidT("b1"), vBytes("d1", vChoose("n1", 2))},
	}
	vAssume(!blks[0].c.Equals(blks[1].c))
	// same multihash => same data (a content-addressed store holds one byte string per hash)
	vAssume(vImplies(vBytesEq(blks[0].c.Hash(), blks[1].c.Hash()), vBytesEq(blks[0].data, blks[1].data)))
	store := &vStore{blks}
	ctx := context.Background()
	var out bytes.Buffer
	var cbs []Block
	var hdr CarHeader
	onHeader := func(h CarHeader) error {
		hdr = h
		return WriteHeader(&h, &out)
	}
	onBlock := func(b Block) error {
		cbs = append(cbs, b)
		vAssert("callback-offset-is-position", b.Offset == uint64(out.Len()))
		before := out.Len()
		if err := util.LdWrite(&out, b.BlockCID.Bytes(), b.Data); err != nil {
			return err
		}
		vAssert("callback-size-is-section-size", b.Size == uint64(out.Len()-before))
		return nil
	}
	sc := NewSelectiveCar(ctx, store, []Dag{{Root: blks[0].c}})
	sct := &selectiveCarTraverser{onHeader, onBlock, 0, cid.NewSet(), sc, cidlink.DefaultLinkSystem()}
	vAssert("header", sct.traverseHeader() == nil)
	n := 1 + vChoose("loads", L)
	var wantOrder []int
	seen := [2]bool{}
	for i := 0; i < n; i++ {
		k := vChoose("which", 2)
		r, err := sct.loader(ipld.LinkContext{Ctx: ctx}, cidlink.Link{Cid: blks[k].c})
		vAssert("load-ok", err == nil && r != nil)
		if !seen[k] {
			seen[k] = true
			wantOrder = append(wantOrder, k)
		}
	}
	vAssert("each-loaded-cid-emitted-once", len(cbs) == len(wantOrder))
	for i, k := range wantOrder {
		if i < len(cbs) {
			vAssert("first-load-order", cbs[i].BlockCID.Equals(blks[k].c) && vBytesEq(cbs[i].Data, blks[k].data))
		}
	}
	vAssert("announced-size-is-bytes-written", sct.offset == uint64(out.Len()))
	// Dump of the prepared CAR reproduces the bytes of Write
	var cids []cid.Cid
	for _, b := range cbs {
		cids = append(cids, b.BlockCID)
	}
	prepared := SelectiveCarPrepared{sc, sct.offset, hdr, cids, nil}
	var dumped bytes.Buffer
	vAssert("dump-ok", prepared.Dump(ctx, &dumped) == nil)
	vAssert("dump-equals-write", vBytesEq(dumped.Bytes(), out.Bytes()))
	vCover("same-multihash-other-codec", seen[0] && seen[1] && vBytesEq(blks[0].c.Hash(), blks[1].c.Hash()))
	vCover("repeat-load", n > len(wantOrder))
}
