package car

import (
	"bytes"
	"context"

	"github.com/ipfs/go-cid"
	basicnode "github.com/ipld/go-ipld-prime/node/basic"
	"github.com/ipld/go-ipld-prime/traversal/selector/builder"
	selectorparse "github.com/ipld/go-ipld-prime/traversal/selector/parse"
)

func vIdCid(codec byte, data []byte) cid.Cid {
	c, err := cid.Cast(append([]byte{1, codec, 0, byte(len(data))}, data...))
	if err != nil {
		panic("vIdCid")
	}
	return c
}

// vPbOneLink: a dag-pb node with one link (no name, no size) and no data.
func vPbOneLink(to cid.Cid) []byte {
	cb := to.Bytes()
	link := append([]byte{0x0a, byte(len(cb))}, cb...)
	return append([]byte{0x12, byte(len(link))}, link...)
}

func vSelectiveCids(ctx context.Context, store ReadStore, dags []Dag) ([]cid.Cid, bool) {
	var out bytes.Buffer
	var got []cid.Cid
	err := NewSelectiveCar(ctx, store, dags).Write(&out, func(b Block) error {
		got = append(got, b.BlockCID)
		return nil
	})
	return got, err == nil
}

// VerifH_C15_RootSeveralDags: the real traversal of the root-module selective writer over several
// Dags. A chain T -> M -> L (dag-pb, dag-pb, raw; identity CIDs, arbitrary leaf byte) and two Dags,
// each rooted at T or M with either a selector that stops at the first link's target or the
// explore-all selector: the CAR holds exactly the blocks some Dag's own traversal loads (what each
// Dag emits when written alone), each once - also when a later Dag's root was already emitted
// by an earlier Dag that did not descend into it.
func VerifH_C15_RootSeveralDags() {
	leafData := []byte{vU8("leaf")}
	L := vIdCid(0x55, leafData)
	mData := vPbOneLink(L)
	M := vIdCid(0x70, mData)
	tData := vPbOneLink(M)
	T := vIdCid(0x70, tData)
	store := &vStore{[]vBlk{{L, leafData}, {M, mData}, {T, tData}}}
	ssb := builder.NewSelectorSpecBuilder(basicnode.Prototype.Any)
	shallow := ssb.ExploreFields(func(efsb builder.ExploreFieldsSpecBuilder) {
		efsb.Insert("Links", ssb.ExploreIndex(0, ssb.ExploreFields(func(e2 builder.ExploreFieldsSpecBuilder) {
			e2.Insert("Hash", ssb.Matcher())
		})))
	}).Node()
	all := selectorparse.CommonSelector_ExploreAllRecursively
	mk := func(tag string) Dag {
		d := Dag{Root: T, Selector: shallow}
		if vChoose(tag+".root", 2) == 1 {
			d.Root = M
		}
		if vChoose(tag+".sel", 2) == 1 {
			d.Selector = all
		}
		return d
	}
	d1, d2 := mk("d1"), mk("d2")
	ctx := context.Background()
	a1, ok1 := vSelectiveCids(ctx, store, []Dag{d1})
	a2, ok2 := vSelectiveCids(ctx, store, []Dag{d2})
	both, ok := vSelectiveCids(ctx, store, []Dag{d1, d2})
	vAssert("writes-ok", ok1 && ok2 && ok)
	var want []cid.Cid
	for _, c := range append(append([]cid.Cid{}, a1...), a2...) {
		dup := false
		for _, w := range want {
			if w.Equals(c) {
				dup = true
			}
		}
		if !dup {
			want = append(want, c)
		}
	}
	vAssert("union-of-dags-count", len(both) == len(want))
	for i := range want {
		if i < len(both) {
			vAssert("union-of-dags-order", both[i].Equals(want[i]))
		}
	}
	vCover("second-root-seen-shallowly", d1.Root.Equals(T) && d2.Root.Equals(M) && len(a1) == 2 && len(a2) == 2 && len(both) == 3)
}
