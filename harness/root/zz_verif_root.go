package car

import (
	"bytes"
	"context"
	"io"

	blocks "github.com/ipfs/go-block-format"

	"github.com/ipfs/go-cid"
	"github.com/ipld/go-car/util"
)

type vStream struct {
	data []byte
	pos  int
}

func (s *vStream) Read(p []byte) (int, error) {
	if len(p) == 0 {
		return 0, nil
	}
	if s.pos >= len(s.data) {
		return 0, io.EOF
	}
	n := copy(p, s.data[s.pos:])
	s.pos += n
	return n, nil
}

func vRootHeader(roots ...cid.Cid) []byte {
	var buf bytes.Buffer
	if err := WriteHeader(&CarHeader{Roots: roots, Version: 1}, &buf); err != nil {
		panic("vRootHeader")
	}
	return buf.Bytes()
}

// VerifH_C02_RootCarReaderNext: root-module CarReader over a valid header followed by N arbitrary
// bytes cut anywhere: returned blocks hash to their CIDs; clean EOF only at a section boundary.
func VerifH_C02_RootCarReaderNext() {
	N := 8
	if vTier() == 1 {
		N = 12
	}
	root := vCidID("root")
	hdr := vRootHeader(root)
	in := vBytes("in", N)
	n := vInt("n")
	vAssume(n >= 0 && n <= N)
	file := append(append([]byte{}, hdr...), in[:n]...)
	src := &vStream{data: file}
	cr, err := NewCarReader(src)
	vAssert("header-accepted", err == nil && len(cr.Header.Roots) == 1 && cr.Header.Roots[0].Equals(root))
	for i := 0; i < 4; i++ {
		// position of the next unread byte of the archive (bufio may have read ahead)
		consumed := src.pos - cr.br.Buffered()
		blk, err := cr.Next()
		if err == nil {
			c := blk.Cid()
			h, herr := c.Prefix().Sum(blk.RawData())
			vAssert("integrity", herr == nil && h.Equals(c))
			vCover("block-returned", true)
			continue
		}
		if err == io.EOF {
			// The root-module reader keeps go-car v0's convention that a zero-length section (a
			// 0x00 length byte, i.e. null padding) ends the archive. No proper prefix of a valid
			// section starts with 0x00, so this is not a truncation in the sense of the property.
			// (encoding/binary also accepts the non-minimal spellings 80 00, 80 80 00, ... of zero.)
			nullPad := false
			for j := consumed; j < len(file) && j < consumed+10; j++ {
				if file[j] == 0 {
					nullPad = true
					break
				}
				if file[j] != 0x80 {
					break
				}
			}
			vAssert("clean-eof-only-at-boundary", consumed == len(file) || nullPad)
			vCover("null-padding-eof", nullPad)
			vCover("clean-eof", true)
			// the reader stays usable after its end: another call reports the end again (no panic)
			_, again := cr.Next()
			vAssert("eof-is-sticky", again == io.EOF)
			return
		}
		vCover("error-reported", true)
		return
	}
}

// VerifH_C01_RootBlocksStayIntact: blocks returned by the root-module reader keep their bytes:
// after a first archive has been read to its end and a second archive is read (the reader's
// buffers come from a pool and may be reused), the first archive's block is unchanged, and both
// archives' blocks equal what the root-module writer framing put there.
func VerifH_C01_RootBlocksStayIntact() {
	root := vCidID("root")
	hdr := vRootHeader(root)
	mk := func(tag string) (cid.Cid, []byte, []byte) {
		c := vCidID(tag)
		data := vIdentityPayload(c)
		var buf bytes.Buffer
		buf.Write(hdr)
		if err := util.LdWrite(&buf, c.Bytes(), data); err != nil {
			panic("mk")
		}
		return c, data, buf.Bytes()
	}
	c1, d1, car1 := mk("b1")
	c2, d2, car2 := mk("b2")
	r1, err := NewCarReader(&vStream{data: car1})
	vAssert("open1", err == nil)
	blk1, err := r1.Next()
	vAssert("next1", err == nil && blk1.Cid().Equals(c1) && vBytesEq(blk1.RawData(), d1))
	_, err = r1.Next()
	vAssert("eof1", err == io.EOF)
	r2, err := NewCarReader(&vStream{data: car2})
	vAssert("open2", err == nil)
	blk2, err := r2.Next()
	vAssert("next2", err == nil && blk2.Cid().Equals(c2) && vBytesEq(blk2.RawData(), d2))
	vAssert("first-block-still-intact", vBytesEq(blk1.RawData(), d1))
	vCover("two-archives-read", true)
}

type vRecStore struct {
	blks []blocks.Block
}

func (s *vRecStore) Put(ctx context.Context, b blocks.Block) error {
	s.blks = append(s.blks, b)
	return nil
}

type vRecBatchStore struct {
	vRecStore
}

func (s *vRecBatchStore) PutMany(ctx context.Context, bs []blocks.Block) error {
	s.blks = append(s.blks, bs...)
	return nil
}

// VerifH_C02_RootLoadCar: the root-module loaders (Put and PutMany paths) over a valid header and
// N arbitrary bytes cut anywhere: LoadCar succeeds iff a CarReader scan of the same bytes ends in a
// clean end of archive, and then it stored exactly the scanned blocks.
func VerifH_C02_RootLoadCar() {
	N := 7
	if vTier() == 1 {
		N = 10
	}
	root := vCidID("root")
	hdr := vRootHeader(root)
	in := vBytes("in", N)
	n := vInt("n")
	vAssume(n >= 0 && n <= N)
	file := append(append([]byte{}, hdr...), in[:n]...)
	// reference: scan with Next
	cr, err := NewCarReader(&vStream{data: file})
	vAssert("open", err == nil)
	var want []blocks.Block
	clean := false
	for i := 0; i <= N; i++ {
		b, err := cr.Next()
		if err == io.EOF {
			clean = true
			break
		}
		if err != nil {
			break
		}
		want = append(want, b)
	}
	ctx := context.Background()
	var got []blocks.Block
	var lerr error
	if vChoose("batch", 2) == 1 {
		st := &vRecBatchStore{}
		_, lerr = LoadCar(ctx, st, &vStream{data: file})
		got = st.blks
	} else {
		st := &vRecStore{}
		_, lerr = LoadCar(ctx, st, &vStream{data: file})
		got = st.blks
	}
	vAssert("load-ok-iff-scan-clean", (lerr == nil) == clean)
	if lerr == nil {
		vAssert("loaded-count", len(got) == len(want))
		for i := range want {
			if i < len(got) {
				vAssert("loaded-blocks", got[i].Cid().Equals(want[i].Cid()) && vBytesEq(got[i].RawData(), want[i].RawData()))
			}
		}
		vCover("loaded-some", len(got) > 0)
	}
	vCover("load-refused", lerr != nil)
}
