package car

import (
	"bytes"
	"io"

	"github.com/ipfs/go-cid"
)

type vStream struct {
	data []byte
	pos  int
}

func (s *vStream) Read(p []byte) (int, error) {
	if len(p) == 0 {
		return 0, nil
	}
	if s.pos >= len(s.data) {
		return 0, io.EOF
	}
	n := copy(p, s.data[s.pos:])
	s.pos += n
	return n, nil
}

func vRootHeader(roots ...cid.Cid) []byte {
	var buf bytes.Buffer
	if err := WriteHeader(&CarHeader{Roots: roots, Version: 1}, &buf); err != nil {
		panic("vRootHeader")
	}
	return buf.Bytes()
}

// VerifH_C02_RootCarReaderNext: root-module CarReader over a valid header followed by N arbitrary
// bytes cut anywhere: returned blocks hash to their CIDs; clean EOF only at a section boundary.
func VerifH_C02_RootCarReaderNext() {
	N := 8
	if vTier() == 1 {
		N = 12
	}
	root := vCidID("root")
	hdr := vRootHeader(root)
	in := vBytes("in", N)
	n := vInt("n")
	vAssume(n >= 0 && n <= N)
	file := append(append([]byte{}, hdr...), in[:n]...)
	src := &vStream{data: file}
	cr, err := NewCarReader(src)
	vAssert("header-accepted", err == nil && len(cr.Header.Roots) == 1 && cr.Header.Roots[0].Equals(root))
	for i := 0; i < 4; i++ {
		// position of the next unread byte of the archive (bufio may have read ahead)
		consumed := src.pos - cr.br.Buffered()
		blk, err := cr.Next()
		if err == nil {
			c := blk.Cid()
			h, herr := c.Prefix().Sum(blk.RawData())
			vAssert("integrity", herr == nil && h.Equals(c))
			vCover("block-returned", true)
			continue
		}
		if err == io.EOF {
			// The root-module reader keeps go-car v0's convention that a zero-length section (a
			// 0x00 length byte, i.e. null padding) ends the archive. No proper prefix of a valid
			// section starts with 0x00, so this is not a truncation in the sense of the property.
			// (encoding/binary also accepts the non-minimal spellings 80 00, 80 80 00, ... of zero.)
			nullPad := false
			for j := consumed; j < len(file) && j < consumed+10; j++ {
				if file[j] == 0 {
					nullPad = true
					break
				}
				if file[j] != 0x80 {
					break
				}
			}
			vAssert("clean-eof-only-at-boundary", consumed == len(file) || nullPad)
			vCover("null-padding-eof", nullPad)
			vCover("clean-eof", true)
			return
		}
		vCover("error-reported", true)
		return
	}
}
