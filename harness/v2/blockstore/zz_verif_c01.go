package blockstore

import (
	"bytes"
	"context"
	"io"

	blockfmt "github.com/ipfs/go-block-format"
	"github.com/ipfs/go-cid"
	carv2 "github.com/ipld/go-car/v2"
	"github.com/ipld/go-car/v2/storage"
	"github.com/ipld/go-car/v2/storage/deferred"
	"github.com/multiformats/go-multicodec"
)

type vMemFile struct {
	data []byte
	pos  int
}

func (f *vMemFile) Write(p []byte) (int, error) {
	n, _ := f.WriteAt(p, int64(f.pos))
	f.pos += n
	return n, nil
}
func (f *vMemFile) WriteAt(p []byte, off int64) (int, error) {
	if len(f.data) < int(off)+len(p) {
		f.data = append(f.data, make([]byte, int(off)+len(p)-len(f.data))...)
	}
	copy(f.data[off:], p)
	return len(p), nil
}

type vStreamW struct {
	data []byte
}

func (w *vStreamW) Write(p []byte) (int, error) {
	w.data = append(w.data, p...)
	return len(p), nil
}

func vPayloadBytes(file []byte) []byte {
	rd, err := carv2.NewReader(bytes.NewReader(file))
	if err != nil {
		panic("vPayloadBytes")
	}
	if rd.Version == 1 {
		return file
	}
	return file[rd.Header.DataOffset : rd.Header.DataOffset+rd.Header.DataSize]
}

// VerifH_C01_WritersToReaders: the same roots and two valid blocks (collision alphabet, identity
// included) written by the read-write blockstore, the writable storage and the deferred writer -
// as CARv1 or CARv2 with padding and either index codec - give one and the same CARv1 payload,
// and every reader (block reader, read-only blockstore incl. key listing, readable storage)
// returns exactly the stored (CID, bytes) sequence in write order after de-duplication.
func VerifH_C01_WritersToReaders() {
	root := vCidID("root")
	roots := []cid.Cid{root}
	nblk, maxData := 2, 1
	if vTier() == 1 {
		nblk, maxData = 3, 2
	}
	var blocks []vSection
	for i := 0; i < nblk; i++ {
		b := vValidSection("b", maxData)
		for _, o := range blocks {
			vAssume(vImplies(vBytesEq(o.c.Hash(), b.c.Hash()), vBytesEq(o.data, b.data)))
		}
		blocks = append(blocks, b)
	}
	storeID := vBool("storeIdentity")
	v1 := vBool("writeAsCarV1")
	opts := []carv2.Option{carv2.StoreIdentityCIDs(storeID), carv2.WriteAsCarV1(v1)}
	if !v1 {
		opts = append(opts, carv2.UseDataPadding(uint64(3*vChoose("dataPad", 2))), carv2.UseIndexPadding(uint64(2*vChoose("indexPad", 2))))
		if vChoose("codec", 2) == 1 {
			opts = append(opts, carv2.UseIndexCodec(multicodec.CarIndexSorted))
		}
	}
	ctx := context.Background()

	// expected stored sequence: identity skipped unless stored, de-duplicated by multihash
	var want []vSection
	for _, b := range blocks {
		if !storeID && b.c.Prefix().MhType == 0 {
			continue
		}
		dup := false
		for _, w := range want {
			if vBytesEq(w.c.Hash(), b.c.Hash()) {
				dup = true
			}
		}
		if !dup {
			want = append(want, b)
		}
	}

	// writer 1: writable storage
	f1 := &vMemFile{}
	w1, err := storage.NewWritable(f1, roots, opts...)
	vAssert("storage-open", err == nil)
	for _, b := range blocks {
		vAssert("storage-put", w1.Put(ctx, b.c.KeyString(), b.data) == nil)
	}
	vAssert("storage-finalize", w1.Finalize() == nil)

	// writer 2: read-write blockstore on the model file system
	path := vFSPath("rw.car")
	rw, err := OpenReadWrite(path, roots, opts...)
	vAssert("blockstore-open", err == nil)
	if vBool("batched") {
		// the same sequence as one PutMany batch: de-duplication applies within the batch too
		var batch []blockfmt.Block
		for _, b := range blocks {
			batch = append(batch, vMkBlock(vEntry{b.c, b.data}))
		}
		vAssert("blockstore-putmany", rw.PutMany(ctx, batch) == nil)
		vCover("batched-with-duplicate", len(want) < len(blocks) && (storeID || blocks[0].c.Prefix().MhType != 0))
	} else {
		for _, b := range blocks {
			vAssert("blockstore-put", rw.Put(ctx, vMkBlock(vEntry{b.c, b.data})) == nil)
		}
	}
	vAssert("blockstore-finalize", rw.Finalize() == nil)
	file2, ok := vFSReadFile(path)
	vAssert("blockstore-file", ok)
	vAssert("writers-agree-storage-vs-blockstore", vBytesEq(f1.data, file2))

	// writer 3: deferred writer (stream target: CARv1 only)
	if v1 {
		sw := &vStreamW{}
		dw := deferred.NewDeferredCarWriterForStream(sw, roots, carv2.StoreIdentityCIDs(storeID))
		for _, b := range blocks {
			vAssert("deferred-put", dw.Put(ctx, b.c.KeyString(), b.data) == nil)
		}
		vAssert("deferred-close", dw.Close() == nil)
		vAssert("writers-agree-deferred-payload", vBytesEq(sw.data, vPayloadBytes(f1.data)))
		vCover("deferred-compared", true)
	}

	// reader 1: block reader
	br, err := carv2.NewBlockReader(bytes.NewReader(f1.data))
	vAssert("blockreader-open", err == nil && len(br.Roots) == 1 && br.Roots[0].Equals(root))
	for _, w := range want {
		blk, err := br.Next()
		vAssert("blockreader-next", err == nil && blk.Cid().Equals(w.c) && vBytesEq(blk.RawData(), w.data))
	}
	_, err = br.Next()
	vAssert("blockreader-eof", err == io.EOF)

	// reader 2: read-only blockstore
	ro, err := NewReadOnly(&vReaderAt{data: f1.data}, nil, carv2.StoreIdentityCIDs(storeID), carv2.UseWholeCIDs(true))
	vAssert("readonly-open", err == nil)
	for _, w := range want {
		blk, err := ro.Get(ctx, w.c)
		vAssert("readonly-get", err == nil && vBytesEq(blk.RawData(), w.data))
	}
	ch, err := ro.AllKeysChan(ctx)
	vAssert("readonly-keys", err == nil)
	i := 0
	for c := range ch {
		vAssert("readonly-keys-order", i < len(want) && c.Equals(want[i].c))
		i++
	}
	vAssert("readonly-keys-complete", i == len(want))

	// reader 3: readable storage
	sr, err := storage.OpenReadable(&vReaderAt{data: f1.data}, carv2.StoreIdentityCIDs(storeID), carv2.UseWholeCIDs(true))
	vAssert("readable-open", err == nil && len(sr.Roots()) == 1 && sr.Roots()[0].Equals(root))
	for _, w := range want {
		got, err := sr.Get(ctx, w.c.KeyString())
		vAssert("readable-get", err == nil && vBytesEq(got, w.data))
	}
	vCover("all-stored", len(want) == nblk)
	vCover("dedup-or-identity-dropped", len(want) < nblk)
	vCover("v2-sorted-codec", !v1)
}
