package blockstore

import (
	"context"
	"os"

	blocks "github.com/ipfs/go-block-format"
	"github.com/ipfs/go-cid"
	carv2 "github.com/ipld/go-car/v2"
)

type vEntry struct {
	c    cid.Cid
	data []byte
}

func vMkBlock(e vEntry) blocks.Block {
	b, err := blocks.NewBlockWithCid(e.data, e.c)
	if err != nil {
		panic("vMkBlock")
	}
	return b
}

// VerifH_C04_BlockstoreLifecycle: a read-write blockstore over a path or over a caller-owned file:
// puts are retrievable with their exact bytes and listed; after Finalize or Discard the file never
// changes again and every write and non-identity lookup errors (Put panics or errors - never succeeds).
func VerifH_C04_BlockstoreLifecycle() {
	root := vCidID("root")
	roots := []cid.Cid{root}
	useWhole := vBool("useWholeCIDs")
	v1 := vBool("writeAsCarV1")
	opts := []carv2.Option{carv2.UseWholeCIDs(useWhole), carv2.WriteAsCarV1(v1)}
	path := vFSPath("bs.car")
	ctx := context.Background()
	var rw *ReadWrite
	var err error
	callerOwned := vChoose("callerOwnedFile", 2) == 1
	if callerOwned {
		f, ferr := os.OpenFile(path, os.O_RDWR|os.O_CREATE, 0o666)
		vAssert("file-open", ferr == nil)
		rw, err = OpenReadWriteFile(f, roots, opts...)
	} else {
		rw, err = OpenReadWrite(path, roots, opts...)
	}
	vAssert("open", err == nil)
	n := 1 + vChoose("puts", 2)
	var puts []vEntry
	for i := 0; i < n; i++ {
		e := vEntry{vCidT("blk"), vBytes("data", vChoose("len", 2))}
		vAssume(e.c.Prefix().MhType != 0)
		vAssume(vValidBlock(e.c, e.data))
		puts = append(puts, e)
		vAssert("put-ok", rw.Put(ctx, vMkBlock(e)) == nil)
		got, gerr := rw.Get(ctx, e.c)
		vAssert("get-after-put", gerr == nil)
		match := false
		for _, p := range puts {
			if vSameKey(useWhole, p.c, e.c) && vBytesEq(p.data, got.RawData()) {
				match = true
			}
		}
		vAssert("get-returns-stored-bytes", match)
		has, herr := rw.Has(ctx, e.c)
		vAssert("has-after-put", herr == nil && has)
	}
	rts, rerr := rw.Roots()
	vAssert("roots", rerr == nil && len(rts) == 1 && rts[0].Equals(root))
	how := vChoose("end", 4)
	switch how {
	case 0:
		vAssert("finalize-ok", rw.Finalize() == nil)
		vCover("finalized", true)
	case 1:
		rw.Discard()
		vCover("discarded", true)
	default:
		// FinalizeReadOnly keeps the store open for reading only; it is ended by Close, or by a
		// Finalize, which is "FinalizeReadOnly and Close": whatever the latter reports about the
		// repeated finalization, the store is closed afterwards
		vAssert("finalize-read-only-ok", rw.FinalizeReadOnly() == nil)
		got, gerr := rw.Get(ctx, puts[0].c)
		vAssert("read-only-still-reads", gerr == nil && got != nil)
		if how == 2 {
			vAssert("close-ok", rw.Close() == nil)
			vCover("finalize-read-only-then-close", true)
		} else {
			rw.Finalize()
			vCover("finalize-read-only-then-finalize", true)
		}
	}
	before, ok := vFSReadFile(path)
	vAssert("file-readable", ok)
	late := vEntry{vCidT("late"), []byte{1}}
	vAssume(late.c.Prefix().MhType != 0)
	// Put after Finalize/Discard must not succeed (it returns an error or panics)
	succeeded := false
	func() {
		defer func() { recover() }()
		if perr := rw.Put(ctx, vMkBlock(late)); perr == nil {
			succeeded = true
		}
	}()
	vAssert("put-after-end-does-not-succeed", !succeeded)
	_, herr := rw.Has(ctx, puts[0].c)
	vAssert("has-after-end-errors", herr != nil)
	_, gerr := rw.Get(ctx, puts[0].c)
	vAssert("get-after-end-errors", gerr != nil)
	_, serr := rw.GetSize(ctx, puts[0].c)
	vAssert("getsize-after-end-errors", serr != nil)
	_, aerr := rw.AllKeysChan(ctx)
	vAssert("allkeys-after-end-errors", aerr != nil)
	after, ok2 := vFSReadFile(path)
	vAssert("file-unchanged-after-end", ok2 && vBytesEq(before, after))
	vCover("caller-owned", callerOwned)
}
