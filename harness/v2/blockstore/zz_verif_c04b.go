package blockstore

import (
	"context"

	blocks "github.com/ipfs/go-block-format"
	"github.com/ipfs/go-cid"
	carv2 "github.com/ipld/go-car/v2"
)

type vBSModel struct {
	entries                     []vEntry
	storeID, allowDup, useWhole bool
}

func (m *vBSModel) has(q cid.Cid) bool {
	if !m.storeID && q.Prefix().MhType == 0 {
		return true
	}
	for _, e := range m.entries {
		if vSameKey(m.useWhole, e.c, q) {
			return true
		}
	}
	return false
}

func (m *vBSModel) put(e vEntry) {
	if !m.storeID && e.c.Prefix().MhType == 0 {
		return
	}
	if !m.allowDup {
		for _, x := range m.entries {
			if vSameKey(m.useWhole, x.c, e.c) {
				return
			}
		}
	}
	m.entries = append(m.entries, e)
}

// VerifH_C04_BlockstoreHistory: histories of Put / PutMany on the read-write blockstore (model file
// system) with Has / Get / GetSize after every step and a final key listing, against the reference
// map model, for every StoreIdentityCIDs / AllowDuplicatePuts / UseWholeCIDs configuration.
func VerifH_C04_BlockstoreHistory() {
	m := &vBSModel{storeID: vBool("storeIdentity"), allowDup: vBool("allowDup"), useWhole: vBool("useWholeCIDs")}
	root := vCidID("root")
	rw, err := OpenReadWrite(vFSPath("hist.car"), []cid.Cid{root},
		carv2.StoreIdentityCIDs(m.storeID), carv2.AllowDuplicatePuts(m.allowDup), carv2.UseWholeCIDs(m.useWhole))
	vAssert("open", err == nil)
	ctx := context.Background()
	L := 2 // (three steps with every option configuration run for more than an hour)
	var all []vEntry
	for i := 0; i < L; i++ {
		s := vValidSection("blk", 1)
		e := vEntry{s.c, s.data}
		all = append(all, e)
		// collision freeness on this run's blocks
		for _, o := range all[:len(all)-1] {
			vAssume(vImplies(vBytesEq(o.c.Hash(), e.c.Hash()), vBytesEq(o.data, e.data)))
		}
		many := i == 1
		if vTier() == 1 {
			many = vChoose("many", 2) == 1
		}
		if many {
			// PutMany with the same block twice: the second occurrence follows the same rules
			vAssert("putmany-ok", rw.PutMany(ctx, []blocks.Block{vMkBlock(e), vMkBlock(e)}) == nil)
			m.put(e)
			m.put(e)
			vCover("putmany", true)
		} else {
			vAssert("put-ok", rw.Put(ctx, vMkBlock(e)) == nil)
			m.put(e)
		}
		q := vCidT("q")
		has, herr := rw.Has(ctx, q)
		vAssert("has-matches-model", herr == nil && has == m.has(q))
		blk, gerr := rw.Get(ctx, q)
		sz, serr := rw.GetSize(ctx, q)
		if q.Prefix().MhType == 0 {
			// GetSize answers identity CIDs from the CID itself whatever StoreIdentityCIDs says
			// (pinned by the suite: TestReadOnly/OpenedWithCarV2); Has and Get defer to the index
			// when the option is on.
			vAssert("getsize-identity", serr == nil && sz == 2)
		}
		if !m.storeID && q.Prefix().MhType == 0 {
			vAssert("get-identity", gerr == nil && vBytesEq(blk.RawData(), vIdentityPayload(q)))
		} else if m.has(q) {
			match := false
			for _, x := range m.entries {
				if vSameKey(m.useWhole, x.c, q) && gerr == nil && vBytesEq(x.data, blk.RawData()) {
					match = true
				}
			}
			vAssert("get-returns-stored-bytes", match)
			vAssert("getsize-is-length", serr == nil && gerr == nil && sz == len(blk.RawData()))
			vCover("hit", true)
		} else {
			vAssert("get-miss", gerr != nil)
			vAssert("getsize-miss", serr != nil || q.Prefix().MhType == 0)
		}
	}
	// key listing: one key per stored section (order of the digest-keyed index is not write order)
	ch, aerr := rw.AllKeysChan(ctx)
	vAssert("allkeys-ok", aerr == nil)
	n := 0
	for c := range ch {
		found := false
		for _, x := range m.entries {
			want := x.c
			if !m.useWhole {
				want = cid.NewCidV1(cid.Raw, x.c.Hash())
			}
			if want.Equals(c) {
				found = true
			}
		}
		vAssert("allkeys-only-stored", found)
		n++
	}
	vAssert("allkeys-count", n == len(m.entries))
	vCover("dedup-happened", len(m.entries) < L)
	vCover("duplicates-stored", m.allowDup && len(m.entries) > L)
}
