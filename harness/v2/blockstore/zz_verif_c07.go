package blockstore

import (
	"bytes"
	"context"
	"errors"
	"io"

	"github.com/ipfs/go-cid"
	format "github.com/ipfs/go-ipld-format"
	carv2 "github.com/ipld/go-car/v2"
	"github.com/ipld/go-car/v2/index"
	"github.com/ipld/go-car/v2/internal/carv1"
	"github.com/ipld/go-car/v2/internal/carv1/util"
	"github.com/ipld/go-car/v2/storage"
	"github.com/multiformats/go-multicodec"
)

type vReaderAt struct {
	data []byte
}

func (r *vReaderAt) ReadAt(p []byte, off int64) (int, error) {
	if off < 0 {
		return 0, errors.New("vReaderAt: negative offset")
	}
	if off >= int64(len(r.data)) {
		return 0, io.EOF
	}
	n := copy(p, r.data[off:])
	if n < len(p) {
		return n, io.EOF
	}
	return n, nil
}

type vSection struct {
	c    cid.Cid
	data []byte
	off  uint64
}

func vHeaderV1(roots ...cid.Cid) []byte {
	var buf bytes.Buffer
	if err := carv1.WriteHeader(&carv1.CarHeader{Roots: roots, Version: 1}, &buf); err != nil {
		panic("vHeaderV1")
	}
	return buf.Bytes()
}

func vPayload(hdr []byte, secs []vSection) []byte {
	var buf bytes.Buffer
	buf.Write(hdr)
	for i := range secs {
		secs[i].off = uint64(buf.Len())
		if err := util.LdWrite(&buf, secs[i].c.Bytes(), secs[i].data); err != nil {
			panic("vPayload")
		}
	}
	return buf.Bytes()
}

func vValidSection(tag string, maxData int) vSection {
	c := vCidT(tag)
	if c.Prefix().MhType == 0 {
		// identity: the data is the digest
		return vSection{c: c, data: vIdentityPayload(c)}
	}
	data := vBytes(tag+".data", vChoose(tag+".len", maxData+1))
	vAssume(vValidBlock(c, data))
	return vSection{c: c, data: data}
}

// vArchive builds CARv1, or CARv2 (padding, with or without an embedded index of either codec).
func vArchive(payload []byte, secs []vSection, storeID bool) []byte {
	kind := vChoose("archiveKind", 3)
	if kind == 0 {
		vCover("archive-v1", true)
		return payload
	}
	pad := 3 * vChoose("pad", 2)
	var buf bytes.Buffer
	buf.Write(carv2.Pragma)
	h := carv2.Header{DataOffset: uint64(carv2.PragmaSize + carv2.HeaderSize + pad), DataSize: uint64(len(payload))}
	var idxBytes bytes.Buffer
	if kind == 2 {
		codec := multicodec.CarMultihashIndexSorted
		if vChoose("codec", 2) == 1 {
			codec = multicodec.CarIndexSorted
		}
		idx, err := index.New(codec)
		if err != nil {
			panic("vArchive index")
		}
		var recs []index.Record
		for _, s := range secs {
			if storeID || s.c.Prefix().MhType != 0 {
				recs = append(recs, index.Record{Cid: s.c, Offset: s.off})
			}
		}
		if err := idx.Load(recs); err != nil {
			panic("vArchive load")
		}
		if _, err := index.WriteTo(idx, &idxBytes); err != nil {
			panic("vArchive write")
		}
		h.IndexOffset = h.DataOffset + h.DataSize
		vCover("archive-v2-indexed", true)
	} else {
		vCover("archive-v2-indexless", true)
	}
	if _, err := h.WriteTo(&buf); err != nil {
		panic("vArchive header")
	}
	buf.Write(make([]byte, pad))
	buf.Write(payload)
	buf.Write(idxBytes.Bytes())
	return buf.Bytes()
}

// vArchiveV2Indexless wraps a payload into an index-less CARv2 without padding.
func vArchiveV2Indexless(payload []byte) []byte {
	var buf bytes.Buffer
	buf.Write(carv2.Pragma)
	h := carv2.Header{DataOffset: uint64(carv2.PragmaSize + carv2.HeaderSize), DataSize: uint64(len(payload))}
	if _, err := h.WriteTo(&buf); err != nil {
		panic("vArchiveV2Indexless")
	}
	buf.Write(payload)
	return buf.Bytes()
}

func vSameKey(useWhole bool, a, b cid.Cid) bool {
	if useWhole {
		return a.Equals(b)
	}
	return vBytesEq(a.Hash(), b.Hash())
}

// VerifH_C07_ReadOnlyAgreesWithScan: for a well-formed archive of two (thorough: three) sections (collision
// alphabet) in three container shapes, the read-only blockstore and the readable storage answer
// Has/Get/GetSize/Roots and the key listing exactly as a front-to-back scan would, and agree with
// each other, for every query CID and option configuration.
func VerifH_C07_ReadOnlyAgreesWithScan() {
	root := vCidID("root")
	nsec, maxData := 2, 1
	if vTier() == 1 {
		nsec, maxData = 3, 2
	}
	var secs []vSection
	for i := 0; i < nsec; i++ {
		s := vValidSection("s", maxData)
		// collision freeness of the hash functions on this run
		for _, o := range secs {
			vAssume(vImplies(vBytesEq(o.c.Hash(), s.c.Hash()), vBytesEq(o.data, s.data)))
		}
		secs = append(secs, s)
	}
	payload := vPayload(vHeaderV1(root), secs)
	storeID := vBool("storeIdentity")
	useWhole := vBool("useWholeCIDs")
	file := vArchive(payload, secs, storeID)
	opts := []carv2.Option{carv2.StoreIdentityCIDs(storeID), carv2.UseWholeCIDs(useWhole)}
	ctx := context.Background()

	ro, err := NewReadOnly(&vReaderAt{data: file}, nil, opts...)
	vAssert("blockstore-opens", err == nil)
	sc, err := storage.OpenReadable(&vReaderAt{data: file}, opts...)
	vAssert("storage-opens", err == nil)

	q := vCidT("q")
	isID := q.Prefix().MhType == 0
	present := false
	for _, s := range secs {
		if vSameKey(useWhole, s.c, q) && (storeID || s.c.Prefix().MhType != 0) {
			present = true
		}
	}
	wantHas := present || (!storeID && isID)

	has, herr := ro.Has(ctx, q)
	vAssert("blockstore-has", herr == nil && has == wantHas)
	shas, sherr := sc.Has(ctx, q.KeyString())
	vAssert("storage-has", sherr == nil && shas == wantHas)

	blk, gerr := ro.Get(ctx, q)
	sdata, sgerr := sc.Get(ctx, q.KeyString())
	if !storeID && isID {
		vAssert("blockstore-get-identity", gerr == nil && vBytesEq(blk.RawData(), vIdentityPayload(q)))
		vAssert("storage-get-identity", sgerr == nil && vBytesEq(sdata, vIdentityPayload(q)))
	} else if present {
		vAssert("blockstore-get-ok", gerr == nil)
		vAssert("storage-get-ok", sgerr == nil)
		match, smatch := false, false
		for _, s := range secs {
			if vSameKey(useWhole, s.c, q) {
				if vBytesEq(blk.RawData(), s.data) {
					match = true
				}
				if vBytesEq(sdata, s.data) {
					smatch = true
				}
			}
		}
		vAssert("blockstore-get-bytes-of-a-matching-section", match)
		vAssert("storage-get-bytes-of-a-matching-section", smatch)
		vAssert("apis-agree-on-bytes", vBytesEq(blk.RawData(), sdata))
		sz, szerr := ro.GetSize(ctx, q)
		vAssert("getsize", szerr == nil && sz == len(blk.RawData()))
		vCover("hit", true)
	} else {
		var nf format.ErrNotFound
		vAssert("blockstore-get-notfound", gerr != nil && errors.As(gerr, &nf))
		var snf storage.ErrNotFound
		vAssert("storage-get-notfound", sgerr != nil && errors.As(sgerr, &snf))
		vCover("miss", true)
	}

	roots, rerr := ro.Roots()
	vAssert("roots", rerr == nil && len(roots) == 1 && roots[0].Equals(root))
	vAssert("storage-roots", len(sc.Roots()) == 1 && sc.Roots()[0].Equals(root))

	ch, aerr := ro.AllKeysChan(ctx)
	vAssert("allkeys-ok", aerr == nil)
	i := 0
	for c := range ch {
		vAssert("allkeys-not-too-many", i < len(secs))
		if i < len(secs) {
			want := secs[i].c
			if !useWhole {
				want = cid.NewCidV1(cid.Raw, want.Hash())
			}
			vAssert("allkeys-scan-order", c.Equals(want))
		}
		i++
	}
	vAssert("allkeys-complete", i == len(secs))
}
