package blockstore

import (
	"bytes"
	"context"
	"io"

	"github.com/ipfs/go-cid"
	carv2 "github.com/ipld/go-car/v2"
)

// vRWOp runs one public operation of the read-write blockstore.
func vRWOp(rw *ReadWrite, which int, e vEntry, q cid.Cid) {
	ctx := context.Background()
	switch which {
	case 0:
		rw.Put(ctx, vMkBlock(e))
	case 1:
		rw.Has(ctx, q)
	case 2:
		rw.Get(ctx, q)
	case 3:
		rw.GetSize(ctx, q)
	case 4:
		ch, err := rw.AllKeysChan(ctx)
		if err == nil {
			for range ch {
			}
		}
	case 5:
		rw.Roots()
	case 6:
		rw.Finalize()
	}
}

// VerifH_C08_BlockstoreRaces: two public operations of one read-write blockstore (one block
// already stored) run as two logical threads, plus the goroutines they spawn. The engine records
// lock operations and accesses to the shared store; the solver decides, with the schedule as
// timestamp variables, whether two conflicting accesses can coincide (data race), and the lock
// discipline is checked for leaks and self-deadlock.
func VerifH_C08_BlockstoreRaces() {
	root := vCidID("root")
	path := vFSPath("c08.car")
	useWhole := vBool("useWholeCIDs")
	rw, err := OpenReadWrite(path, []cid.Cid{root}, carv2.UseWholeCIDs(useWhole))
	vAssert("open", err == nil)
	first := vEntry{vCidT("first"), []byte{7}}
	vAssume(first.c.Prefix().MhType != 0)
	vAssume(vValidBlock(first.c, first.data))
	vAssert("seed-put", rw.Put(context.Background(), vMkBlock(first)) == nil)
	e1 := vEntry{vCidT("e1"), []byte{1}}
	e2 := vEntry{vCidT("e2"), []byte{2}}
	vAssume(e1.c.Prefix().MhType != 0 && e2.c.Prefix().MhType != 0)
	vAssume(vValidBlock(e1.c, e1.data) && vValidBlock(e2.c, e2.data))
	if vChoose("sameBlock", 2) == 1 {
		e2 = e1 // both calls concern one block: de-duplication must hold across them
	}
	opA := vChoose("opA", 7)
	opB := vChoose("opB", 7)
	vAssume(opA <= opB)
	if vTier() == 1 {
		// thorough: a third concurrent call, one of the two mutating operations (Put, or the
		// Finalize/Close that ends the session)
		opC := []int{0, 6}[vChoose("opC", 2)]
		vConcurrently(
			func() { vRWOp(rw, opA, e1, first.c) },
			func() { vRWOp(rw, opB, e2, first.c) },
			func() { vRWOp(rw, opC, e1, first.c) },
		)
	} else {
		vConcurrently(
			func() { vRWOp(rw, opA, e1, first.c) },
			func() { vRWOp(rw, opB, e2, first.c) },
		)
	}
	opNames := []string{"put", "has", "get", "getsize", "allkeys", "roots", "finalize"}
	vRaceCheck("blockstore-" + opNames[opA] + "-" + opNames[opB])
	// outcome under whatever schedule ran: a well-formed archive with the seed block and each
	// distinct key at most once
	rw.Finalize()
	img, ok := vFSReadFile(path)
	vAssert("file-readable", ok)
	br, berr := carv2.NewBlockReader(bytes.NewReader(img))
	vAssert("outcome-is-an-archive", berr == nil)
	var seen []cid.Cid
	foundFirst := false
	for i := 0; i < 5; i++ {
		blk, err := br.Next()
		if err == io.EOF {
			break
		}
		vAssert("outcome-sections-intact", err == nil)
		for _, s := range seen {
			same := vBytesEq(s.Hash(), blk.Cid().Hash())
			if useWhole {
				same = s.Equals(blk.Cid())
			}
			vAssert("each-distinct-block-once", !same)
		}
		seen = append(seen, blk.Cid())
		if blk.Cid().Equals(first.c) {
			foundFirst = true
		}
	}
	vAssert("seed-block-kept", foundFirst)
	vCover("put-vs-put", opA == 0 && opB == 0)
	vCover("allkeys-vs-put", opA == 0 && opB == 4)
	vCover("finalize-vs-get", opA == 2 && opB == 6)
}
