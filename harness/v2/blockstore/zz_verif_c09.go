package blockstore

import (
	"bytes"
	"context"
	"errors"

	"github.com/ipfs/go-cid"
	carv2 "github.com/ipld/go-car/v2"
	"github.com/ipld/go-car/v2/index"
	"github.com/ipld/go-car/v2/storage"
)

// vErrHeaderTooLarge obtains the library's too-large error value through the public API.
func vErrHeaderTooLarge() error {
	_, err := carv2.NewBlockReader(&vBytesReader{data: []byte{0x7f}}, carv2.MaxAllowedHeaderSize(1))
	return err
}

type vBytesReader struct {
	data []byte
	pos  int
}

func (r *vBytesReader) Read(p []byte) (int, error) {
	if r.pos >= len(r.data) {
		return 0, errors.New("vBytesReader: end")
	}
	n := copy(p, r.data[r.pos:])
	r.pos += n
	return n, nil
}

// VerifH_C09_StoreHeaderLimits: the read-only blockstore and the readable storage honour
// MaxAllowedHeaderSize for every value of the limit, on a bare CARv1 and on the inner header of a
// CARv2 (index-less, so that the header is read again for index generation): too-large error iff
// the header is longer than the limit, accepted exactly at the limit, whatever the section limit.
func VerifH_C09_StoreHeaderLimits() {
	root := vCidID("root")
	sec := vSection{c: vCidID("c1"), data: nil}
	sec.data = vIdentityPayload(sec.c)
	hdr := vHeaderV1(root)
	L := uint64(len(hdr) - 1)
	maxH := vU64("maxHeader")
	maxS := vU64("maxSection")
	vAssume(maxH < 1<<32 && maxS >= 16 && maxS < 1<<32)
	payload := vPayload(hdr, []vSection{sec})
	shape := vChoose("shape", 3) // bare CARv1, index-less CARv2, CARv2 with its index
	isV2 := shape != 0
	file := payload
	tooLarge := L > maxH
	if isV2 {
		file = vArchiveV2Indexless(payload)
		tooLarge = 10 > maxH || L > maxH
	}
	if shape == 2 {
		idx := index.NewMultihashSorted()
		if err := idx.Load([]index.Record{{Cid: sec.c, Offset: uint64(len(hdr))}}); err != nil {
			panic("index load")
		}
		var ib bytes.Buffer
		if _, err := index.WriteTo(idx, &ib); err != nil {
			panic("index write")
		}
		var buf bytes.Buffer
		buf.Write(carv2.Pragma)
		h := carv2.Header{DataOffset: uint64(carv2.PragmaSize + carv2.HeaderSize), DataSize: uint64(len(payload))}
		h.IndexOffset = h.DataOffset + h.DataSize
		if _, err := h.WriteTo(&buf); err != nil {
			panic("header write")
		}
		buf.Write(payload)
		buf.Write(ib.Bytes())
		file = buf.Bytes()
	}
	opts := []carv2.Option{carv2.MaxAllowedHeaderSize(maxH), carv2.MaxAllowedSectionSize(maxS)}
	want := vErrHeaderTooLarge()
	var err error
	if vChoose("frontEnd", 2) == 0 {
		var ro *ReadOnly
		ro, err = NewReadOnly(&vReaderAt{data: file}, nil, opts...)
		if err == nil {
			_, err = ro.Roots()
		}
		if err == nil {
			_, err = ro.Has(context.Background(), sec.c)
		}
	} else {
		var sc storage.ReadableCar
		sc, err = storage.OpenReadable(&vReaderAt{data: file}, opts...)
		if err == nil {
			_, err = sc.Has(context.Background(), sec.c.KeyString())
		}
	}
	vAssert("too-large-iff-above-header-limit", errors.Is(err, want) == tooLarge)
	vAssert("accepted-at-or-below-limit", tooLarge || err == nil)
	vCover("exactly-at-limit", !tooLarge && maxH == L)
	vCover("one-above-limit", maxH+1 == L && isV2)
	_ = cid.Undef
}
