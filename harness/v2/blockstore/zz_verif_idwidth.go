package blockstore

import (
	"bytes"
	"context"
	"io"

	"github.com/ipfs/go-cid"
	carv2 "github.com/ipld/go-car/v2"
	"github.com/ipld/go-car/v2/storage"
)

// vIDWidth picks the identity digest width classes: empty, one byte, the last one-byte length
// varint, the first two-byte one, and beyond.
func vIDWidth() int {
	return []int{0, 1, 127, 128, 131}[vChoose("idWidth", 5)]
}

// VerifH_C04_IdentityWidths: the IdStore rules on the read-write blockstore, its read-only view and
// the storage front-end for identity CIDs of every digest width class (empty digest, one- and
// two-byte length varint): with StoreIdentityCIDs off Put is a no-op, Has is true, Get returns the
// digest and GetSize its length; with the option on the block is stored and read like any other.
func VerifH_C04_IdentityWidths() {
	n := vIDWidth()
	c := vCidIDN("id", n)
	data := vIdentityPayload(c)
	storeID := vBool("storeIdentity")
	doPut := vBool("put")
	ctx := context.Background()
	root := vCidID("root")
	path := vFSPath("idw.car")
	rw, err := OpenReadWrite(path, []cid.Cid{root}, carv2.StoreIdentityCIDs(storeID))
	vAssert("open", err == nil)
	if doPut {
		vAssert("put-ok", rw.Put(ctx, vMkBlock(vEntry{c, data})) == nil)
	}
	present := !storeID || doPut
	check := func(tag string, has func() (bool, error), get func() ([]byte, error), size func() (int, error)) {
		h, herr := has()
		vAssert(tag+"-has", herr == nil && h == present)
		b, gerr := get()
		if present {
			vAssert(tag+"-get-bytes", gerr == nil && vBytesEq(b, data))
		} else {
			vAssert(tag+"-get-miss", gerr != nil)
		}
		if size != nil {
			sz, serr := size()
			// GetSize answers identity CIDs from the CID itself whatever the option says
			vAssert(tag+"-getsize", serr == nil && sz == n)
		}
	}
	check("rw", func() (bool, error) { return rw.Has(ctx, c) },
		func() ([]byte, error) {
			b, err := rw.Get(ctx, c)
			if err != nil {
				return nil, err
			}
			return b.RawData(), nil
		},
		func() (int, error) { return rw.GetSize(ctx, c) })
	vAssert("finalize", rw.Finalize() == nil)
	file, ok := vFSReadFile(path)
	vAssert("file", ok)
	ro, err := NewReadOnly(&vReaderAt{data: file}, nil, carv2.StoreIdentityCIDs(storeID))
	vAssert("ro-open", err == nil)
	check("ro", func() (bool, error) { return ro.Has(ctx, c) },
		func() ([]byte, error) {
			b, err := ro.Get(ctx, c)
			if err != nil {
				return nil, err
			}
			return b.RawData(), nil
		},
		func() (int, error) { return ro.GetSize(ctx, c) })
	sr, err := storage.OpenReadable(&vReaderAt{data: file}, carv2.StoreIdentityCIDs(storeID))
	vAssert("sr-open", err == nil)
	check("storage", func() (bool, error) { return sr.Has(ctx, c.KeyString()) },
		func() ([]byte, error) { return sr.Get(ctx, c.KeyString()) }, nil)
	if present {
		rd, err := sr.GetStream(ctx, c.KeyString())
		vAssert("storage-getstream", err == nil)
		if err == nil {
			got, err := io.ReadAll(rd)
			vAssert("storage-getstream-bytes", err == nil && vBytesEq(got, data))
		}
	}
	vCover("two-byte-length-varint", n >= 128 && present)
	vCover("empty-digest-stored", n == 0 && storeID && doPut)
}

// VerifH_C01_IdentityWidths: an identity block of every digest width class written with
// StoreIdentityCIDs(true) by the writable storage (CARv1, or CARv2 with / without its index kept)
// is read back by the block reader, the read-only blockstore and the readable storage - including
// over the bare payload, where the readers have to build their index by scanning.
func VerifH_C01_IdentityWidths() {
	n := vIDWidth()
	c := vCidIDN("id", n)
	data := vIdentityPayload(c)
	other := vValidSection("b", 1)
	ctx := context.Background()
	root := vCidID("root")
	v1 := vBool("writeAsCarV1")
	f := &vMemFile{}
	w, err := storage.NewWritable(f, []cid.Cid{root}, carv2.StoreIdentityCIDs(true), carv2.WriteAsCarV1(v1))
	vAssert("open", err == nil)
	vAssert("put-id", w.Put(ctx, c.KeyString(), data) == nil)
	otherStored := !vBytesEq(other.c.Hash(), c.Hash())
	vAssert("put-other", w.Put(ctx, other.c.KeyString(), other.data) == nil)
	vAssert("finalize", w.Finalize() == nil)
	file := f.data
	if !v1 && vBool("payloadOnly") {
		file = vPayloadBytes(file)
		vCover("v2-payload-rescanned", true)
	}
	br, err := carv2.NewBlockReader(bytes.NewReader(file))
	vAssert("blockreader-open", err == nil)
	blk, err := br.Next()
	vAssert("blockreader-identity", err == nil && blk.Cid().Equals(c) && vBytesEq(blk.RawData(), data))
	if otherStored {
		blk, err = br.Next()
		vAssert("blockreader-other", err == nil && blk.Cid().Equals(other.c) && vBytesEq(blk.RawData(), other.data))
	}
	_, err = br.Next()
	vAssert("blockreader-eof", err == io.EOF)
	ro, err := NewReadOnly(&vReaderAt{data: file}, nil, carv2.StoreIdentityCIDs(true))
	vAssert("readonly-open", err == nil)
	if err == nil {
		b, err := ro.Get(ctx, c)
		vAssert("readonly-get", err == nil && vBytesEq(b.RawData(), data))
		if otherStored {
			b, err = ro.Get(ctx, other.c)
			vAssert("readonly-get-other", err == nil && vBytesEq(b.RawData(), other.data))
		}
	}
	sr, err := storage.OpenReadable(&vReaderAt{data: file}, carv2.StoreIdentityCIDs(true))
	vAssert("readable-open", err == nil)
	if err == nil {
		got, err := sr.Get(ctx, c.KeyString())
		vAssert("readable-get", err == nil && vBytesEq(got, data))
		if otherStored {
			got, err = sr.Get(ctx, other.c.KeyString())
			vAssert("readable-get-other", err == nil && vBytesEq(got, other.data))
		}
	}
	vCover("empty-identity-block", n == 0)
	vCover("wide-identity-block", n >= 128)
}
