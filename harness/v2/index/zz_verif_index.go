package index

import (
	"bytes"
	"io"

	"github.com/ipfs/go-cid"
	"github.com/multiformats/go-multicodec"
	"github.com/multiformats/go-multihash"
)

// vStream: plain io.Reader over data.
type vStream struct {
	data []byte
	pos  int
}

func (s *vStream) Read(p []byte) (int, error) {
	if len(p) == 0 {
		return 0, nil
	}
	if s.pos >= len(s.data) {
		return 0, io.EOF
	}
	n := copy(p, s.data[s.pos:])
	s.pos += n
	return n, nil
}

type vWriter struct {
	buf []byte
}

func (w *vWriter) Write(p []byte) (int, error) {
	w.buf = append(w.buf, p...)
	return len(p), nil
}

func vCodec(tag string) multicodec.Code {
	if vChoose(tag, 2) == 0 {
		return multicodec.CarIndexSorted
	}
	return multicodec.CarMultihashIndexSorted
}

// vRecords: n records with CIDs from the collision alphabet and arbitrary offsets.
func vRecords(n int) []Record {
	rs := make([]Record, n)
	for i := range rs {
		rs[i] = Record{Cid: vCidT("rec"), Offset: vU64("off")}
	}
	return rs
}

func vDigest(c cid.Cid) []byte {
	d, err := multihash.Decode(c.Hash())
	if err != nil {
		panic("vDigest")
	}
	return d.Digest
}

func vCode(c cid.Cid) uint64 {
	d, err := multihash.Decode(c.Hash())
	if err != nil {
		panic("vCode")
	}
	return d.Code
}

// expected offsets for query q, as a reference model over the raw records
func vMatches(codec multicodec.Code, r Record, q cid.Cid) bool {
	same := vBytesEq(vDigest(r.Cid), vDigest(q))
	if codec == multicodec.CarMultihashIndexSorted {
		same = vAnd(same, vCode(r.Cid) == vCode(q))
	}
	return same
}

func vGetAll(idx Index, q cid.Cid) ([]uint64, error) {
	var got []uint64
	err := idx.GetAll(q, func(o uint64) bool {
		got = append(got, o)
		return true
	})
	return got, err
}

// vCheckLookup asserts that GetAll(q) delivers exactly the multiset of offsets of matching records.
func vCheckLookup(tagp string, codec multicodec.Code, idx Index, recs []Record, q cid.Cid) {
	got, err := vGetAll(idx, q)
	want := 0
	for _, r := range recs {
		if vMatches(codec, r, q) {
			want++
		}
	}
	vAssert(tagp+"count", len(got) == want)
	vAssert(tagp+"notfound-iff-empty", (err == ErrNotFound) == (want == 0) && (err == nil) == (want > 0))
	// every delivered offset belongs to a matching record, with multiplicity
	used := make([]bool, len(recs))
	for _, o := range got {
		found := false
		for i, r := range recs {
			if !used[i] && !found && vMatches(codec, r, q) && r.Offset == o {
				used[i] = true
				found = true
			}
		}
		vAssert(tagp+"offset-belongs", found)
	}
}

// VerifH_C03_LookupSortedIndexes: for up to 3 records with colliding CIDs and any query CID, both
// on-disk codecs deliver exactly the offsets of the records carrying the queried key.
func VerifH_C03_LookupSortedIndexes() {
	codec := vCodec("codec")
	n := 1 + vChoose("n", 2)
	if vTier() == 1 {
		n = 1 + vChoose("n3", 3)
	}
	recs := vRecords(n)
	idx, err := New(codec)
	vAssert("new", err == nil)
	vAssert("load", idx.Load(recs) == nil)
	q := vCidT("q")
	vCheckLookup("", codec, idx, recs, q)
	first, ferr := GetFirst(idx, q)
	got, _ := vGetAll(idx, q)
	vAssert("getfirst", (ferr == nil) == (len(got) > 0) && (len(got) == 0 || first == got[0]))
	vCover("hit", len(got) > 0)
	vCover("double-hit", len(got) > 1)
	vCover("miss", len(got) == 0)
}

// VerifH_C11_MarshalRoundTrip: WriteTo reports the bytes written; ReadFrom of those bytes answers
// every lookup like the original; serialisation does not depend on load order unless digests tie.
func VerifH_C11_MarshalRoundTrip() {
	codec := vCodec("codec")
	n := 1 + vChoose("n", 2)
	if vTier() == 1 {
		n = 1 + vChoose("n3", 3)
	}
	recs := vRecords(n)
	idx, _ := New(codec)
	vAssert("load", idx.Load(recs) == nil)
	w := &vWriter{}
	cnt, err := WriteTo(idx, w)
	vAssert("write-ok", err == nil)
	vAssert("count-is-bytes-written", cnt == uint64(len(w.buf)))

	back, err := ReadFrom(&vStream{data: w.buf})
	vAssert("read-ok", err == nil)
	vAssert("same-codec", back.Codec() == codec)
	q := vCidT("q")
	vCheckLookup("back-", codec, back, recs, q)

	// reversed load order
	rev := make([]Record, n)
	for i := range recs {
		rev[n-1-i] = recs[i]
	}
	idx2, _ := New(codec)
	vAssert("load2", idx2.Load(rev) == nil)
	w2 := &vWriter{}
	_, err = WriteTo(idx2, w2)
	vAssert("write2-ok", err == nil)
	tie := false
	for i := 0; i < n; i++ {
		for j := i + 1; j < n; j++ {
			if vBytesEq(vDigest(recs[i].Cid), vDigest(recs[j].Cid)) {
				tie = true
			}
		}
	}
	vAssert("order-independent-bytes", tie || bytes.Equal(w.buf, w2.buf))
	vAssert("order-independent-length", len(w.buf) == len(w2.buf))
	vCover("no-tie", !tie && n >= 2)
	vCover("tie", tie)
}

// VerifH_C09_IndexReadFrom: index.ReadFrom on arbitrary bytes never panics, terminates, and every
// allocation whose size comes from the input is bounded by the input length (+ slack).
func VerifH_C09_IndexReadFrom() {
	N := 24
	in := vBytes("in", N)
	n := vInt("n")
	vAssume(n >= 0 && n <= N)
	vAllocCheck(true, 64, uint64(N))
	vRegion("index-unmarshal-alloc", true)
	idx, err := ReadFrom(&vStream{data: in[:n]})
	vAllocCheck(false, 0, 0)
	vCover("parsed", err == nil && idx != nil)
	vCover("rejected", err != nil)
}

// ---------------------------------------------------------------- insertion index (C03)

// VerifH_C03_LookupInsertionIndex: the in-memory insertion index (used by writable stores and by
// readers that regenerate an index) keeps every loaded record: GetAll delivers the offsets of all
// records with the queried digest, HasExactCID / HasMultihash report exactly the loaded CIDs and
// multihashes, and ForEach delivers every record once - including records that share a digest.
func VerifH_C03_LookupInsertionIndex() {
	n := 1 + vChoose("n", 2)
	if vTier() == 1 {
		n = 1 + vChoose("n3", 3)
	}
	recs := vRecords(n)
	ii := NewInsertionIndex()
	if vChoose("how", 2) == 0 {
		vAssert("load", ii.Load(recs) == nil)
	} else {
		for _, r := range recs {
			ii.InsertNoReplace(r.Cid, r.Offset)
		}
	}
	q := vCidT("q")
	// GetAll: by digest only (the insertion index is keyed by digest)
	vCheckLookup("", 0x0400, ii, recs, q)
	exact, eerr := ii.HasExactCID(q)
	wantExact, wantMh := false, false
	for _, r := range recs {
		if r.Cid.Equals(q) {
			wantExact = true
		}
		if vBytesEq(r.Cid.Hash(), q.Hash()) {
			wantMh = true
		}
	}
	vAssert("has-exact-cid", eerr == nil && exact == wantExact)
	hm, merr := ii.HasMultihash(q.Hash())
	vAssert("has-multihash", merr == nil && hm == wantMh)
	seen := 0
	ferr := ii.ForEachCid(func(c cid.Cid, off uint64) error {
		seen++
		return nil
	})
	vAssert("foreach-visits-every-record", ferr == nil && seen == n)
	vCover("shared-digest", n >= 2 && vBytesEq(vDigest(recs[0].Cid), vDigest(recs[1].Cid)))
	vCover("exact-hit", wantExact)
}

// ---------------------------------------------------------------- reference serialiser (C11)

func vLE32(v uint32) []byte { return []byte{byte(v), byte(v >> 8), byte(v >> 16), byte(v >> 24)} }
func vLE64(v uint64) []byte {
	return []byte{byte(v), byte(v >> 8), byte(v >> 16), byte(v >> 24), byte(v >> 32), byte(v >> 40), byte(v >> 48), byte(v >> 56)}
}

// vLess: strict lexicographic order of two digests of equal length (branching on bytes).
func vLess(a, b []byte) bool {
	for i := range a {
		if a[i] != b[i] {
			return a[i] < b[i]
		}
	}
	return false
}

// vRefMultiWidth: the documented layout of a multi-width bucket list for the given records:
// int32 bucket count, then per width ascending: uint32 width+8, uint64 byte length, entries
// (digest ‖ LE64 offset) ascending by digest. Ties are left in input order (callers exclude them).
func vRefMultiWidth(recs []Record) []byte {
	var out []byte
	widths := []int{}
	for w := 0; w <= 64; w++ {
		for _, r := range recs {
			if len(vDigest(r.Cid)) == w {
				widths = append(widths, w)
				break
			}
		}
	}
	out = append(out, vLE32(uint32(len(widths)))...)
	for _, w := range widths {
		var bucket []Record
		for _, r := range recs {
			if len(vDigest(r.Cid)) == w {
				// insertion sort by digest
				pos := len(bucket)
				for pos > 0 && vLess(vDigest(r.Cid), vDigest(bucket[pos-1].Cid)) {
					pos--
				}
				bucket = append(bucket, Record{})
				copy(bucket[pos+1:], bucket[pos:])
				bucket[pos] = r
			}
		}
		out = append(out, vLE32(uint32(w+8))...)
		out = append(out, vLE64(uint64(len(bucket)*(w+8)))...)
		for _, r := range bucket {
			out = append(out, vDigest(r.Cid)...)
			out = append(out, vLE64(r.Offset)...)
		}
	}
	return out
}

// vRefIndexBytes: reference serialisation of WriteTo for both codecs.
func vRefIndexBytes(codec multicodec.Code, recs []Record) []byte {
	if codec == multicodec.CarIndexSorted {
		return append([]byte{0x80, 0x08}, vRefMultiWidth(recs)...)
	}
	out := []byte{0x81, 0x08}
	// hash codes ascending: identity (0x00) before sha2-256 (0x12)
	var codes []uint64
	for _, code := range []uint64{0x00, 0x12} {
		for _, r := range recs {
			if vCode(r.Cid) == code {
				codes = append(codes, code)
				break
			}
		}
	}
	out = append(out, vLE32(uint32(len(codes)))...)
	for _, code := range codes {
		var sub []Record
		for _, r := range recs {
			if vCode(r.Cid) == code {
				sub = append(sub, r)
			}
		}
		out = append(out, vLE64(code)...)
		out = append(out, vRefMultiWidth(sub)...)
	}
	return out
}

// VerifH_C11_CanonicalBytes: the serialised index equals the documented canonical layout (buckets
// ascending by hash code and width, entries ascending by digest) for every record set without
// digest ties, with two digest widths and two hash codes in play; re-reading and re-writing
// reproduces the same bytes.
func VerifH_C11_CanonicalBytes() {
	codec := vCodec("codec")
	n := 2
	if vTier() == 1 {
		n = 2 + vChoose("n3", 2)
	}
	recs := make([]Record, n)
	for i := range recs {
		recs[i] = Record{Cid: vCidTW("rec"), Offset: vU64("off")}
	}
	for i := 0; i < n; i++ {
		for j := i + 1; j < n; j++ {
			vAssume(!vBytesEq(vDigest(recs[i].Cid), vDigest(recs[j].Cid)))
		}
	}
	// Go leaves map iteration order unspecified: explore every order of the bucket maps
	vMapOrderNondet(true)
	idx, _ := New(codec)
	vAssert("load", idx.Load(recs) == nil)
	w := &vWriter{}
	cnt, err := WriteTo(idx, w)
	vMapOrderNondet(false)
	vAssert("write-ok", err == nil && cnt == uint64(len(w.buf)))
	vAssert("canonical-layout", vBytesEq(w.buf, vRefIndexBytes(codec, recs)))
	back, err := ReadFrom(&vStream{data: w.buf})
	vAssert("read-ok", err == nil)
	w2 := &vWriter{}
	_, err = WriteTo(back, w2)
	vAssert("rewrite-identical", err == nil && vBytesEq(w.buf, w2.buf))
	vCover("two-widths", len(vDigest(recs[0].Cid)) != len(vDigest(recs[1].Cid)))
	vCover("two-codes", vCode(recs[0].Cid) != vCode(recs[1].Cid))
}

// VerifH_C11_WideDigests: the same canonical-layout and lookup oracle for digests wider than a
// machine word (identity CIDs over 9 arbitrary bytes; thorough also 32, the sha2-256 width): entries
// ascending by the whole digest - also when two digests agree on their first eight bytes - for
// either load order, and every record found again before and after a round trip.
func VerifH_C11_WideDigests() {
	codec := vCodec("codec")
	W := 9
	if vTier() == 1 && vChoose("w32", 2) == 1 {
		W = 32
	}
	n := 2
	recs := make([]Record, n)
	for i := range recs {
		recs[i] = Record{Cid: vCidIDN("rec", W), Offset: vU64("off")}
	}
	d0, d1 := vDigest(recs[0].Cid), vDigest(recs[1].Cid)
	vAssume(!vBytesEq(d0, d1))
	idx, _ := New(codec)
	vAssert("load", idx.Load(recs) == nil)
	w := &vWriter{}
	cnt, err := WriteTo(idx, w)
	vAssert("write-ok", err == nil && cnt == uint64(len(w.buf)))
	vAssert("canonical-layout", vBytesEq(w.buf, vRefIndexBytes(codec, recs)))
	q := recs[vChoose("q", 2)].Cid
	vCheckLookup("", codec, idx, recs, q)
	back, err := ReadFrom(&vStream{data: w.buf})
	vAssert("read-ok", err == nil)
	vCheckLookup("back-", codec, back, recs, q)
	vCover("shared-leading-word-descending-load", vBytesEq(d0[:8], d1[:8]) && d0[8] > d1[8])
	vCover("distinct-leading-word", !vBytesEq(d0[:8], d1[:8]))
}

// VerifH_C09_IndexIterate: iterating a parsed index is total as well. A multihash-sorted index with
// one hash code and one bucket whose record width (8+1..8+4) and data length (0..N, so also lengths
// that are not a multiple of the width: a trailing partial record) are arbitrary, over arbitrary
// data cut anywhere: ReadFrom either rejects it or yields an index whose ForEach does not panic and
// delivers no record that extends beyond the bucket's data.
func VerifH_C09_IndexIterate() {
	N := 12
	code := vU8("code")
	vAssume(vOr(code == 0x00, code == 0x12))
	width := vInt("width")
	vAssume(width >= 9 && width <= 12)
	dataLen := vInt("dataLen")
	vAssume(dataLen >= 0 && dataLen <= N)
	data := vBytes("data", N)
	n := vInt("n")
	vAssume(n >= 0 && n <= N)
	in := []byte{0x81, 0x08, 1, 0, 0, 0, code, 0, 0, 0, 0, 0, 0, 0, 1, 0, 0, 0}
	in = append(in, vLE32(uint32(width))...)
	in = append(in, vLE64(uint64(dataLen))...)
	in = append(in, data[:n]...)
	idx, err := ReadFrom(&vStream{data: in})
	if err != nil || idx == nil {
		vCover("rejected", true)
		return
	}
	it, ok := idx.(IterableIndex)
	vAssert("iterable", ok)
	cnt := 0
	ferr := it.ForEach(func(mh multihash.Multihash, off uint64) error {
		cnt++
		return nil
	})
	vAssert("records-within-data", cnt*width <= dataLen)
	vCover("iterated-with-partial-tail", ferr == nil && cnt > 0 && dataLen%width != 0)
	vCover("iterated-exact", ferr == nil && cnt > 0 && dataLen%width == 0)
}
