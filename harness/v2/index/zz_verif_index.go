package index

import (
	"bytes"
	"io"

	"github.com/ipfs/go-cid"
	"github.com/multiformats/go-multicodec"
	"github.com/multiformats/go-multihash"
)

// vStream: plain io.Reader over data.
type vStream struct {
	data []byte
	pos  int
}

func (s *vStream) Read(p []byte) (int, error) {
	if len(p) == 0 {
		return 0, nil
	}
	if s.pos >= len(s.data) {
		return 0, io.EOF
	}
	n := copy(p, s.data[s.pos:])
	s.pos += n
	return n, nil
}

type vWriter struct {
	buf []byte
}

func (w *vWriter) Write(p []byte) (int, error) {
	w.buf = append(w.buf, p...)
	return len(p), nil
}

func vCodec(tag string) multicodec.Code {
	if vChoose(tag, 2) == 0 {
		return multicodec.CarIndexSorted
	}
	return multicodec.CarMultihashIndexSorted
}

// vRecords: n records with CIDs from the collision alphabet and arbitrary offsets.
func vRecords(n int) []Record {
	rs := make([]Record, n)
	for i := range rs {
		rs[i] = Record{Cid: vCidT("rec"), Offset: vU64("off")}
	}
	return rs
}

func vDigest(c cid.Cid) []byte {
	d, err := multihash.Decode(c.Hash())
	if err != nil {
		panic("vDigest")
	}
	return d.Digest
}

func vCode(c cid.Cid) uint64 {
	d, err := multihash.Decode(c.Hash())
	if err != nil {
		panic("vCode")
	}
	return d.Code
}

// expected offsets for query q, as a reference model over the raw records
func vMatches(codec multicodec.Code, r Record, q cid.Cid) bool {
	same := vBytesEq(vDigest(r.Cid), vDigest(q))
	if codec == multicodec.CarMultihashIndexSorted {
		same = vAnd(same, vCode(r.Cid) == vCode(q))
	}
	return same
}

func vGetAll(idx Index, q cid.Cid) ([]uint64, error) {
	var got []uint64
	err := idx.GetAll(q, func(o uint64) bool {
		got = append(got, o)
		return true
	})
	return got, err
}

// vCheckLookup asserts that GetAll(q) delivers exactly the multiset of offsets of matching records.
func vCheckLookup(tagp string, codec multicodec.Code, idx Index, recs []Record, q cid.Cid) {
	got, err := vGetAll(idx, q)
	want := 0
	for _, r := range recs {
		if vMatches(codec, r, q) {
			want++
		}
	}
	vAssert(tagp+"count", len(got) == want)
	vAssert(tagp+"notfound-iff-empty", (err == ErrNotFound) == (want == 0) && (err == nil) == (want > 0))
	// every delivered offset belongs to a matching record, with multiplicity
	used := make([]bool, len(recs))
	for _, o := range got {
		found := false
		for i, r := range recs {
			if !used[i] && !found && vMatches(codec, r, q) && r.Offset == o {
				used[i] = true
				found = true
			}
		}
		vAssert(tagp+"offset-belongs", found)
	}
}

// VerifH_C03_LookupSortedIndexes: for up to 3 records with colliding CIDs and any query CID, both
// on-disk codecs deliver exactly the offsets of the records carrying the queried key.
func VerifH_C03_LookupSortedIndexes() {
	codec := vCodec("codec")
	n := 1 + vChoose("n", 2)
	if vTier() == 1 {
		n = 1 + vChoose("n3", 3)
	}
	recs := vRecords(n)
	idx, err := New(codec)
	vAssert("new", err == nil)
	vAssert("load", idx.Load(recs) == nil)
	q := vCidT("q")
	vCheckLookup("", codec, idx, recs, q)
	first, ferr := GetFirst(idx, q)
	got, _ := vGetAll(idx, q)
	vAssert("getfirst", (ferr == nil) == (len(got) > 0) && (len(got) == 0 || first == got[0]))
	vCover("hit", len(got) > 0)
	vCover("double-hit", len(got) > 1)
	vCover("miss", len(got) == 0)
}

// VerifH_C11_MarshalRoundTrip: WriteTo reports the bytes written; ReadFrom of those bytes answers
// every lookup like the original; serialisation does not depend on load order unless digests tie.
func VerifH_C11_MarshalRoundTrip() {
	codec := vCodec("codec")
	n := 1 + vChoose("n", 2)
	if vTier() == 1 {
		n = 1 + vChoose("n3", 3)
	}
	recs := vRecords(n)
	idx, _ := New(codec)
	vAssert("load", idx.Load(recs) == nil)
	w := &vWriter{}
	cnt, err := WriteTo(idx, w)
	vAssert("write-ok", err == nil)
	vAssert("count-is-bytes-written", cnt == uint64(len(w.buf)))

	back, err := ReadFrom(&vStream{data: w.buf})
	vAssert("read-ok", err == nil)
	vAssert("same-codec", back.Codec() == codec)
	q := vCidT("q")
	vCheckLookup("back-", codec, back, recs, q)

	// reversed load order
	rev := make([]Record, n)
	for i := range recs {
		rev[n-1-i] = recs[i]
	}
	idx2, _ := New(codec)
	vAssert("load2", idx2.Load(rev) == nil)
	w2 := &vWriter{}
	_, err = WriteTo(idx2, w2)
	vAssert("write2-ok", err == nil)
	tie := false
	for i := 0; i < n; i++ {
		for j := i + 1; j < n; j++ {
			if vBytesEq(vDigest(recs[i].Cid), vDigest(recs[j].Cid)) {
				tie = true
			}
		}
	}
	vAssert("order-independent-bytes", tie || bytes.Equal(w.buf, w2.buf))
	vAssert("order-independent-length", len(w.buf) == len(w2.buf))
	vCover("no-tie", !tie && n >= 2)
	vCover("tie", tie)
}

// VerifH_C09_IndexReadFrom: index.ReadFrom on arbitrary bytes never panics, terminates, and every
// allocation whose size comes from the input is bounded by the input length (+ slack).
func VerifH_C09_IndexReadFrom() {
	N := 24
	in := vBytes("in", N)
	n := vInt("n")
	vAssume(n >= 0 && n <= N)
	vAllocCheck(true, 64, uint64(N))
	vRegion("index-unmarshal-alloc", true)
	idx, err := ReadFrom(&vStream{data: in[:n]})
	vAllocCheck(false, 0, 0)
	vCover("parsed", err == nil && idx != nil)
	vCover("rejected", err != nil)
}
