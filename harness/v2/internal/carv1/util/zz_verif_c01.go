package util

import (
	"bytes"
	"io"

	"github.com/multiformats/go-varint"
)

type vWriter struct {
	buf   []byte
	calls int
}

func (w *vWriter) Write(p []byte) (int, error) {
	w.buf = append(w.buf, p...)
	w.calls++
	return len(p), nil
}

// VerifH_C01_FrameRoundTrip: for every CID of the alphabet and every payload of 0..3 bytes (all
// contents), LdWrite emits exactly uvarint(len) ‖ cid ‖ data, LdSize predicts the byte count, and
// ReadNode over those bytes followed by arbitrary trailing bytes returns the same (cid, data) and
// stops exactly at the end of the section.
func VerifH_C01_FrameRoundTrip() {
	k, nmax, tn := 6, 4, 2
	if vTier() == 1 {
		k, nmax, tn = 8, 9, 4 // CIDs with 4-byte digests and multi-byte varint fields, data 0..8
	}
	c := vCidRaw("cid", k)
	n := vChoose("dataLen", nmax)
	data := vBytes("data", n)
	tail := vBytes("tail", tn)

	w := &vWriter{}
	err := LdWrite(w, c.Bytes(), data)
	vAssert("write-ok", err == nil)
	vAssert("size-predicted", LdSize(c.Bytes(), data) == uint64(len(w.buf)))
	want := append(append(varint.ToUvarint(uint64(len(c.Bytes())+n)), c.Bytes()...), data...)
	vAssert("exact-frame-bytes", vBytesEq(w.buf, want))

	r := &vStream{data: append(append([]byte{}, w.buf...), tail...)}
	c2, d2, err := ReadNode(r, vBool("zeroLen"), 64)
	vAssert("read-ok", err == nil)
	vAssert("same-cid", c2.Equals(c))
	vAssert("same-data", vBytesEq(d2, data))
	vAssert("stops-at-section-end", r.pos == len(w.buf))
	vCover("roundtrip-identity-cid", c.Prefix().MhType == 0)
	vCover("roundtrip-nonempty", n == 3 && err == nil)
	_ = bytes.Equal
	_ = io.EOF
}

// VerifH_C01_LdSizeAllLengths: LdSize and LdWrite's length prefix agree with the varint size for
// every total length below 2^56 (the prefix buffer of LdWrite is 8 bytes), checked on the
// arithmetic alone: LdSize(d) == len + UvarintSize(len) and the prefix decodes back to len.
func VerifH_C01_LdSizeAllLengths() {
	l := vU64("len")
	vAssume(l < 1<<56)
	buf := make([]byte, 8)
	n := varint.PutUvarint(buf, l)
	vAssert("prefix-size", n == varint.UvarintSize(l))
	got, m, err := varint.FromUvarint(buf[:n])
	vAssert("prefix-decodes", err == nil && got == l && m == n)
	vCover("two-byte-prefix", n == 2)
	vCover("eight-byte-prefix", n == 8)
}
