package util

import (
	"io"
)

// vStream is a plain io.Reader over data[:end] (no ReadByte, no Seek).
type vStream struct {
	data []byte
	pos  int
}

func (s *vStream) Read(p []byte) (int, error) {
	if s.pos >= len(s.data) {
		return 0, io.EOF
	}
	n := copy(p, s.data[s.pos:])
	s.pos += n
	return n, nil
}

// VerifH_C09_LdReadSize: for every 12-byte stream prefix, every limit and both zero-length modes,
// LdReadSize never returns a length above the limit, accepts a length exactly at the limit, and
// does not panic.
func VerifH_C09_LdReadSize() {
	in := vBytes("in", 11)
	n := vInt("n")
	vAssume(n >= 0 && n <= 11)
	max := vU64("max")
	z := vBool("z")
	r := &vStream{data: in[:n]}
	l, err := LdReadSize(r, z, max)
	vAssert("never-above-limit", !(err == nil && l > max))
	vAssert("too-large-error-only-when-above", !(err == ErrSectionTooLarge && r.pos == 0))
	vCover("accepts-exactly-max", err == nil && l == max && l > 300)
	vCover("rejects-too-large", err == ErrSectionTooLarge)
	vCover("unexpected-eof", err == io.ErrUnexpectedEOF)
	vCover("clean-eof", err == io.EOF && r.pos == 0)
}
