package loader

import (
	"bytes"
	"io"

	"github.com/ipfs/go-cid"
	"github.com/ipld/go-car/v2/index"
	"github.com/ipld/go-car/v2/internal/carv1/util"
	"github.com/ipld/go-ipld-prime"
	"github.com/ipld/go-ipld-prime/linking"
	cidlink "github.com/ipld/go-ipld-prime/linking/cid"
	"github.com/multiformats/go-multicodec"
)

type vW struct {
	buf []byte
}

func (w *vW) Write(p []byte) (int, error) {
	w.buf = append(w.buf, p...)
	return len(p), nil
}

type vBlock struct {
	c    cid.Cid
	data []byte
}

func vFrame(b vBlock) []byte {
	var buf bytes.Buffer
	if err := util.LdWrite(&buf, b.c.Bytes(), b.data); err != nil {
		panic("vFrame")
	}
	return buf.Bytes()
}

// vDrain reads a reader to EOF the way ipld-prime's decoders do.
func vDrain(r io.Reader) int {
	n := 0
	buf := make([]byte, 3)
	for i := 0; i < 16; i++ {
		m, err := r.Read(buf)
		n += m
		if err == io.EOF {
			return n
		}
		if err != nil {
			return -1
		}
	}
	return -1
}

// VerifH_C15_CountingVsTeeing: the traversal is replaced by an arbitrary sequence of up to 3
// (thorough 4) block loads over two blocks. The tee pass writes the frames of the distinct loaded
// blocks once each, in first-load order, records their true offsets and reports the bytes written;
// the counting pass over the same load sequence announces the same total.
func VerifH_C15_CountingVsTeeing() {
	L := 3
	if vTier() == 1 {
		L = 4
	}
	blocks := []vBlock{
		{vCidT("b0"), vBytes("d0", vChoose("n0", 3))},
		{vCidT("b1"), vBytes("d1", vChoose("n1", 2))},
	}
	vAssume(!blocks[0].c.Equals(blocks[1].c))
	base := ipld.LinkSystem{
		StorageReadOpener: func(lc linking.LinkContext, l ipld.Link) (io.Reader, error) {
			for _, b := range blocks {
				if l.Binary() == b.c.KeyString() {
					return bytes.NewReader(b.data), nil
				}
			}
			return nil, io.ErrUnexpectedEOF
		},
	}
	n := 1 + vChoose("loads", L)
	seq := make([]int, n)
	for i := range seq {
		seq[i] = vChoose("which", 2)
	}
	initial := uint64(vChoose("initialOffset", 2) * 59)

	cls, counter := CountingLinkSystem(base)
	out := &vW{}
	codecs := []multicodec.Code{multicodec.CarMultihashIndexSorted, multicodec.CarIndexSorted, index.CarIndexNone}
	codec := codecs[vChoose("indexCodec", 3)]
	tls, tracker := TeeingLinkSystem(base, out, initial, codec)

	var want []byte
	var wantOff [2]uint64
	seen := [2]bool{}
	repeat := false
	total := uint64(0)
	for _, k := range seq {
		b := blocks[k]
		lnk := cidlink.Link{Cid: b.c}
		r1, err := cls.StorageReadOpener(linking.LinkContext{}, lnk)
		vAssert("count-open", err == nil)
		vAssert("count-delivers-block", vDrain(r1) == len(b.data))
		r2, err := tls.StorageReadOpener(linking.LinkContext{}, lnk)
		vAssert("tee-open", err == nil)
		vAssert("tee-delivers-block", vDrain(r2) == len(b.data))
		if seen[k] {
			repeat = true
		} else {
			seen[k] = true
			wantOff[k] = initial + uint64(len(want))
			want = append(want, vFrame(b)...)
		}
		total += uint64(len(vFrame(b)))
		_ = total
	}
	vAssert("tee-bytes-are-distinct-frames-in-first-load-order", vBytesEq(out.buf, want))
	vAssert("tee-size-is-bytes-written", tracker.Size() == initial+uint64(len(out.buf)))
	idx, err := tracker.Index()
	if codec == index.CarIndexNone {
		vCover("no-index-codec", true)
	} else {
		vAssert("tee-index", err == nil)
	}
	for k, b := range blocks {
		if !seen[k] || codec == index.CarIndexNone {
			continue
		}
		found := false
		gerr := idx.GetAll(b.c, func(o uint64) bool {
			if o == wantOff[k] {
				found = true
			}
			return true
		})
		vAssert("tee-index-offset-is-true-offset", gerr == nil && found)
	}
	vAssert("announced-size-equals-bytes-written", counter.Size() == uint64(len(out.buf)))
	vCover("with-repeat", repeat)
	vCover("no-repeat-two-blocks", !repeat && seen[0] && seen[1])
}
