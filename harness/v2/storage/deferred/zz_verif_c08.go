package deferred

import (
	"bytes"
	"context"
	"io"

	"github.com/ipfs/go-cid"
	carv2 "github.com/ipld/go-car/v2"
)

func vDWOp(dw *DeferredCarWriter, which int, b vBlk, q cid.Cid) {
	ctx := context.Background()
	switch which {
	case 0:
		dw.Put(ctx, b.c.KeyString(), b.data)
	case 1:
		dw.Has(ctx, q.KeyString())
	case 2:
		dw.Close()
	}
}

// VerifH_C08_DeferredRaces: two public operations (Put, Has, Close) of one deferred writer on a
// path target as two logical threads, before or after the first Put.
func VerifH_C08_DeferredRaces() {
	root := vCidID("root")
	dw := NewDeferredCarWriterForPath(vFSPath("c08d.car"), []cid.Cid{root})
	first := vBlk{vCidT("first"), []byte{7}}
	if vChoose("started", 2) == 1 {
		vAssert("seed-put", dw.Put(context.Background(), first.c.KeyString(), first.data) == nil)
	}
	if vChoose("onceListener", 2) == 1 {
		// a once-only OnPut listener registered beforehand: Put itself removes it
		dw.OnPut(func(int) {}, true)
	}
	b1 := vBlk{vCidT("b1"), []byte{1}}
	b2 := vBlk{vCidT("b2"), []byte{2}}
	if vChoose("sameBlock", 2) == 1 {
		b2 = b1
	}
	opA := vChoose("opA", 3)
	opB := vChoose("opB", 3)
	vAssume(opA <= opB)
	if vTier() == 1 {
		// thorough: a third concurrent call, one of the two mutating operations
		opC := []int{0, 2}[vChoose("opC", 2)]
		vConcurrently(
			func() { vDWOp(dw, opA, b1, first.c) },
			func() { vDWOp(dw, opB, b2, first.c) },
			func() { vDWOp(dw, opC, b1, first.c) },
		)
	} else {
		vConcurrently(
			func() { vDWOp(dw, opA, b1, first.c) },
			func() { vDWOp(dw, opB, b2, first.c) },
		)
	}

	opNames := []string{"put", "has", "close"}
	vRaceCheck("deferred-" + opNames[opA] + "-" + opNames[opB])
	// outcome under whatever schedule ran: after Close, either nothing was ever put and no file
	// exists, or the file is a well-formed archive with each distinct key at most once
	dw.Close()
	img, ok := vFSReadFile(vFSPath("c08d.car"))
	if ok {
		br, berr := carv2.NewBlockReader(bytes.NewReader(img), carv2.WithTrustedCAR(true))
		vAssert("outcome-is-an-archive", berr == nil)
		var seen []cid.Cid
		for i := 0; i < 5; i++ {
			blk, err := br.Next()
			if err == io.EOF {
				break
			}
			vAssert("outcome-sections-intact", err == nil)
			for _, s := range seen {
				vAssert("each-distinct-block-once", !vBytesEq(s.Hash(), blk.Cid().Hash()))
			}
			seen = append(seen, blk.Cid())
		}
		vAssert("at-most-three-sections", len(seen) <= 3)
	}
	vCover("put-vs-close", opA == 0 && opB == 2)
	vCover("first-put-vs-first-put", opA == 0 && opB == 0)
}
