package deferred

import (
	"context"

	"github.com/ipfs/go-cid"
)

func vDWOp(dw *DeferredCarWriter, which int, b vBlk, q cid.Cid) {
	ctx := context.Background()
	switch which {
	case 0:
		dw.Put(ctx, b.c.KeyString(), b.data)
	case 1:
		dw.Has(ctx, q.KeyString())
	case 2:
		dw.Close()
	}
}

// VerifH_C08_DeferredRaces: two public operations (Put, Has, Close) of one deferred writer on a
// path target as two logical threads, before or after the first Put.
func VerifH_C08_DeferredRaces() {
	root := vCidID("root")
	dw := NewDeferredCarWriterForPath(vFSPath("c08d.car"), []cid.Cid{root})
	first := vBlk{vCidT("first"), []byte{7}}
	if vChoose("started", 2) == 1 {
		vAssert("seed-put", dw.Put(context.Background(), first.c.KeyString(), first.data) == nil)
	}
	b1 := vBlk{vCidT("b1"), []byte{1}}
	b2 := vBlk{vCidT("b2"), []byte{2}}
	opA := vChoose("opA", 3)
	opB := vChoose("opB", 3)
	vAssume(opA <= opB)
	if vTier() == 1 {
		// thorough: three concurrent calls
		opC := vChoose("opC", 3)
		vAssume(opB <= opC)
		vConcurrently(
			func() { vDWOp(dw, opA, b1, first.c) },
			func() { vDWOp(dw, opB, b2, first.c) },
			func() { vDWOp(dw, opC, b1, first.c) },
		)
	} else {
		vConcurrently(
			func() { vDWOp(dw, opA, b1, first.c) },
			func() { vDWOp(dw, opB, b2, first.c) },
		)
	}
	vRaceCheck("deferred")
	vCover("put-vs-close", opA == 0 && opB == 2)
	vCover("first-put-vs-first-put", opA == 0 && opB == 0)
}
