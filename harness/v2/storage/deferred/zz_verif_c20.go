package deferred

import (
	"context"
	"errors"

	"github.com/ipfs/go-cid"
	carv2 "github.com/ipld/go-car/v2"
	carstorage "github.com/ipld/go-car/v2/storage"
)

// vSink: io.Writer + io.WriterAt in memory, counting calls.
type vSink struct {
	data  []byte
	pos   int
	calls int
}

func (s *vSink) writeAt(p []byte, off int) {
	for len(s.data) < off+len(p) {
		s.data = append(s.data, 0)
	}
	copy(s.data[off:], p)
	s.calls++
}
func (s *vSink) Write(p []byte) (int, error) {
	s.writeAt(p, s.pos)
	s.pos += len(p)
	return len(p), nil
}
func (s *vSink) WriteAt(p []byte, off int64) (int, error) {
	if off < 0 {
		return 0, errors.New("vSink: negative offset")
	}
	s.writeAt(p, int(off))
	return len(p), nil
}

// vStreamSink: io.Writer only (no WriterAt): the stream target of the deferred writer.
type vStreamSink struct {
	data  []byte
	calls int
}

func (s *vStreamSink) Write(p []byte) (int, error) {
	s.data = append(s.data, p...)
	s.calls++
	return len(p), nil
}

type vBlk struct {
	c    cid.Cid
	data []byte
}

// VerifH_C20_DeferredStream: every sequence of up to 4 operations over {OnPut(once), OnPut(always),
// Has, Put, Close} on a stream target: nothing is written before the first Put; afterwards the
// stream is byte-identical to that of a direct NewWritable with the same roots/options; callbacks
// fire per Put in registration order (once-callbacks exactly once); after Close everything errors.
func VerifH_C20_DeferredStream() {
	L := 3
	if vTier() == 1 {
		L = 4
	}
	roots := []cid.Cid{vCidID("root")}
	allowDup := vBool("allowDup")
	opts := []carv2.Option{carv2.AllowDuplicatePuts(allowDup)}
	ctx := context.Background()

	out := &vStreamSink{}
	dcw := NewDeferredCarWriterForStream(out, roots, opts...)
	ref := &vStreamSink{}
	var direct carstorage.WritableCar

	var fired []int  // callback ids in firing order for the current Put
	var regs []bool  // registered callbacks: once?
	var alive []bool // still registered (model)
	puts := 0
	closed := false
	for i := 0; i < L; i++ {
		switch vChoose("op", 5) {
		case 0, 1:
			once := vChoose("once", 2) == 1
			id := len(regs)
			regs = append(regs, once)
			alive = append(alive, true)
			dcw.OnPut(func(n int) { fired = append(fired, id) }, once)
		case 2:
			q := vCidT("q")
			has, err := dcw.Has(ctx, q.KeyString())
			if closed {
				vAssert("has-after-close", err == carstorage.ErrClosed)
			} else if puts == 0 {
				vAssert("has-before-first-put", err == nil && !has)
				vAssert("has-did-not-write", out.calls == 0)
			} else {
				dh, derr := direct.(*carstorage.StorageCar).Has(ctx, q.KeyString())
				vAssert("has-agrees-with-direct", err == nil && derr == nil && has == dh)
			}
		case 3:
			b := vBlk{vCidT("blk"), vBytes("data", vChoose("len", 2))}
			fired = nil
			err := dcw.Put(ctx, b.c.KeyString(), b.data)
			if closed {
				vAssert("put-after-close", err == carstorage.ErrClosed)
				vAssert("no-callback-after-close", len(fired) == 0)
				break
			}
			if direct == nil {
				d, derr := carstorage.NewWritable(ref, roots, append([]carv2.Option{carv2.WriteAsCarV1(true)}, opts...)...)
				vAssert("direct-open", derr == nil)
				direct = d
			}
			derr := direct.Put(ctx, b.c.KeyString(), b.data)
			vAssert("put-agrees-with-direct", (err == nil) == (derr == nil))
			puts++
			// callbacks: all alive ones, in registration order
			k := 0
			for id, a := range alive {
				if a {
					vAssert("callback-order", k < len(fired) && fired[k] == id)
					k++
					if regs[id] {
						alive[id] = false
					}
				}
			}
			vAssert("callback-count", k == len(fired))
			vCover("put-with-once-callback", len(fired) > 0)
		case 4:
			err := dcw.Close()
			if closed {
				vAssert("close-after-close", err == carstorage.ErrClosed)
			} else {
				vAssert("close-ok", err == nil)
				closed = true
				if direct != nil {
					vAssert("direct-finalize", direct.Finalize() == nil)
				}
			}
		}
		if puts == 0 {
			vAssert("lazy-no-write-before-first-put", out.calls == 0 && len(out.data) == 0)
		} else {
			vAssert("byte-identical-to-direct", vBytesEq(out.data, ref.data))
		}
	}
	vCover("put-then-close", puts > 0 && closed)
	vCover("two-puts", puts >= 2)
}

// VerifH_C20_DeferredPath: path target (model file system): no file exists before the first Put;
// after Put(s) and Close the file equals what a direct CARv2 writer produces.
func VerifH_C20_DeferredPath() {
	roots := []cid.Cid{vCidID("root")}
	v1 := vBool("writeAsCarV1")
	opts := []carv2.Option{carv2.WriteAsCarV1(v1)}
	ctx := context.Background()
	path := vFSPath("out.car")
	dcw := NewDeferredCarWriterForPath(path, roots, opts...)
	has, err := dcw.Has(ctx, vCidT("q").KeyString())
	vAssert("has-before-put", err == nil && !has)
	vAssert("no-file-before-first-put", !vFSExists(path))
	n := vChoose("puts", 3)
	ref := &vSink{}
	var direct carstorage.WritableCar
	for i := 0; i < n; i++ {
		b := vBlk{vCidT("blk"), vBytes("data", vChoose("len", 2))}
		vAssert("put-ok", dcw.Put(ctx, b.c.KeyString(), b.data) == nil)
		if direct == nil {
			d, derr := carstorage.NewWritable(ref, roots, opts...)
			vAssert("direct-open", derr == nil)
			direct = d
		}
		vAssert("direct-put", direct.Put(ctx, b.c.KeyString(), b.data) == nil)
		vAssert("file-exists-after-put", vFSExists(path))
	}
	vAssert("close-ok", dcw.Close() == nil)
	if n == 0 {
		vAssert("still-no-file", !vFSExists(path))
		vCover("never-put", true)
		return
	}
	vAssert("direct-finalize", direct.Finalize() == nil)
	got, ok := vFSReadFile(path)
	vAssert("file-readable", ok)
	vAssert("file-identical-to-direct", vBytesEq(got, ref.data))
	vAssert("put-after-close", dcw.Put(ctx, vCidT("late").KeyString(), nil) == carstorage.ErrClosed)
	vCover("path-v2", !v1)
	vCover("path-v1", v1)
}

// VerifH_C20_DeferredOptions: option handling of the two constructors against a direct writer.
// Stream target: WriteAsCarV1(true) is a default placed BEFORE the caller's options, so a caller
// passing WriteAsCarV1(false) together with a seekable stream gets the CARv2 a direct
// NewWritable(stream, WriteAsCarV1(true), opts...) produces. Path target: with data padding and
// either version the file equals the direct writer's output over an in-memory WriterAt, and in
// CARv1 mode also the plain-stream payload.
func VerifH_C20_DeferredOptions() {
	roots := []cid.Cid{vCidID("root")}
	ctx := context.Background()
	b := vBlk{vCidT("blk"), vBytes("data", vChoose("len", 2))}
	dp := uint64(4 * vChoose("dataPad", 2))
	if vChoose("target", 2) == 0 {
		// seekable stream target
		userV1 := vChoose("userWriteAsCarV1", 3) // 0: not given, 1: false, 2: true
		var opts []carv2.Option
		switch userV1 {
		case 1:
			opts = append(opts, carv2.WriteAsCarV1(false))
		case 2:
			opts = append(opts, carv2.WriteAsCarV1(true))
		}
		if userV1 == 1 {
			opts = append(opts, carv2.UseDataPadding(dp))
		}
		out := &vSink{}
		dw := NewDeferredCarWriterForStream(out, roots, opts...)
		vAssert("put", dw.Put(ctx, b.c.KeyString(), b.data) == nil)
		vAssert("close", dw.Close() == nil)
		ref := &vSink{}
		d, err := carstorage.NewWritable(ref, roots, append([]carv2.Option{carv2.WriteAsCarV1(true)}, opts...)...)
		vAssert("direct-open", err == nil)
		vAssert("direct-put", d.Put(ctx, b.c.KeyString(), b.data) == nil)
		vAssert("direct-finalize", d.Finalize() == nil)
		vAssert("stream-identical-to-direct", vBytesEq(out.data, ref.data))
		vCover("stream-user-v2", userV1 == 1)
		return
	}
	v1 := vBool("writeAsCarV1")
	opts := []carv2.Option{carv2.WriteAsCarV1(v1), carv2.UseDataPadding(dp)}
	path := vFSPath("opt.car")
	if vChoose("preexistingLongerFile", 2) == 1 {
		// whatever was at the path before must not survive
		vFSWriteFile(path, vBytes("old", 200))
		vCover("path-overwrites-longer-file", true)
	}
	dw := NewDeferredCarWriterForPath(path, roots, opts...)
	vAssert("put", dw.Put(ctx, b.c.KeyString(), b.data) == nil)
	vAssert("close", dw.Close() == nil)
	got, ok := vFSReadFile(path)
	vAssert("file", ok)
	ref := &vSink{}
	d, err := carstorage.NewWritable(ref, roots, opts...)
	vAssert("direct-open", err == nil)
	vAssert("direct-put", d.Put(ctx, b.c.KeyString(), b.data) == nil)
	vAssert("direct-finalize", d.Finalize() == nil)
	vAssert("path-identical-to-direct", vBytesEq(got, ref.data))
	if v1 {
		// in CARv1 mode the file is the payload, exactly what a plain stream receives
		ps := &vStreamSink{}
		p, err := carstorage.NewWritable(ps, roots, opts...)
		vAssert("stream-open", err == nil)
		vAssert("stream-put", p.Put(ctx, b.c.KeyString(), b.data) == nil)
		vAssert("stream-finalize", p.Finalize() == nil)
		vAssert("v1-file-is-the-stream-payload", vBytesEq(got, ps.data))
		vCover("path-v1-padded", dp > 0)
	}
}
