package storage

import (
	"bytes"
	"context"
	"io"
	"os"

	"github.com/ipfs/go-cid"
	carv2 "github.com/ipld/go-car/v2"
)

func vSCOp(sc *StorageCar, which int, e vEntry, q cid.Cid) {
	ctx := context.Background()
	switch which {
	case 0:
		sc.Put(ctx, e.c.KeyString(), e.data)
	case 1:
		sc.Has(ctx, q.KeyString())
	case 2:
		sc.Get(ctx, q.KeyString())
	case 3:
		sc.Roots()
	case 4:
		sc.Finalize()
	}
}

// VerifH_C08_StorageRaces: two public operations of one readable-writable storage CAR (one block
// stored) as two logical threads; lock discipline and data races decided as in the blockstore
// harness. The backing file is an *os.File of the model file system (pread/pwrite atomicity of the
// operating system is outside the claim).
func VerifH_C08_StorageRaces() {
	root := vCidID("root")
	f, err := os.OpenFile(vFSPath("c08s.car"), os.O_RDWR|os.O_CREATE, 0o666)
	vAssert("file", err == nil)
	useWhole := vBool("useWholeCIDs")
	sc, err := NewReadableWritable(f, []cid.Cid{root}, carv2.UseWholeCIDs(useWhole), carv2.WriteAsCarV1(vBool("writeAsCarV1")))
	vAssert("open", err == nil)
	first := vValidBlockT("first", 1)
	vAssume(!vIsIdentity(first.c))
	vAssert("seed-put", sc.Put(context.Background(), first.c.KeyString(), first.data) == nil)
	e1 := vValidBlockT("e1", 1)
	e2 := vValidBlockT("e2", 1)
	vAssume(!vIsIdentity(e1.c) && !vIsIdentity(e2.c))
	scenario := "storage"
	if vChoose("sameBlock", 2) == 1 {
		e2 = e1 // both calls concern one block: de-duplication must hold across them
		scenario = "storage-same-block"
	}
	vNoCollisions([]vEntry{first, e1, e2})
	opA := vChoose("opA", 5)
	opB := vChoose("opB", 5)
	vAssume(opA <= opB)
	if vTier() == 1 {
		// thorough: a third concurrent call, one of the two mutating operations (Put, or the
		// Finalize/Close that ends the session)
		opC := []int{0, 4}[vChoose("opC", 2)]
		vConcurrently(
			func() { vSCOp(sc, opA, e1, first.c) },
			func() { vSCOp(sc, opB, e2, first.c) },
			func() { vSCOp(sc, opC, e1, first.c) },
		)
	} else {
		vConcurrently(
			func() { vSCOp(sc, opA, e1, first.c) },
			func() { vSCOp(sc, opB, e2, first.c) },
		)
	}
	opNames := []string{"put", "has", "get", "roots", "finalize"}
	vRaceCheck(scenario + "-" + opNames[opA] + "-" + opNames[opB])
	// sequential-consistency of the outcome, whatever the schedule was: after a final Finalize the
	// file is a well-formed archive that holds the seed block and each distinct block at most once
	// (checked symbolically for the engine's schedule, and by the stress replays of schedule-
	// dependent counterexamples natively)
	sc.Finalize()
	img, ok := vFSReadFile(vFSPath("c08s.car"))
	vAssert("file-readable", ok)
	br, berr := carv2.NewBlockReader(bytes.NewReader(img))
	vAssert("outcome-is-an-archive", berr == nil)
	var seen []cid.Cid
	foundFirst := false
	for i := 0; i < 5; i++ {
		blk, err := br.Next()
		if err == io.EOF {
			break
		}
		vAssert("outcome-sections-intact", err == nil)
		for _, s := range seen {
			// the de-duplication key is the multihash, or the whole CID with UseWholeCIDs
			same := vBytesEq(s.Hash(), blk.Cid().Hash())
			if useWhole {
				same = s.Equals(blk.Cid())
			}
			vAssert("each-distinct-block-once", !same)
		}
		seen = append(seen, blk.Cid())
		if blk.Cid().Equals(first.c) {
			foundFirst = true
		}
	}
	vAssert("seed-block-kept", foundFirst)
	vAssert("at-most-three-sections", len(seen) <= 3)
	vCover("put-vs-put", opA == 0 && opB == 0)
	vCover("get-vs-finalize", opA == 2 && opB == 4)
}
