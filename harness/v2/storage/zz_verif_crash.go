package storage

import (
	"bytes"
	"context"

	"github.com/ipfs/go-cid"
	carv2 "github.com/ipld/go-car/v2"
	"github.com/ipld/go-car/v2/index"
)

// vCrashImage: the file left on disk when the session's writes log[0..r) were applied completely
// and only the first k bytes of log[r] reached the disk (k symbolic; k == len means complete).
func vCrashImage(pre []byte, log []vWriteRec, r int, k int) []byte {
	img := append([]byte{}, pre...)
	apply := func(w vWriteRec) {
		if w.trunc >= 0 {
			if len(img) < w.trunc {
				img = append(img, make([]byte, w.trunc-len(img))...)
			}
			img = img[:w.trunc]
			return
		}
		if len(img) < w.off+len(w.data) {
			img = append(img, make([]byte, w.off+len(w.data)-len(img))...)
		}
		copy(img[w.off:], w.data)
	}
	for i := 0; i < r; i++ {
		apply(log[i])
	}
	if r >= len(log) {
		return img
	}
	w := log[r]
	if w.trunc >= 0 {
		if k > 0 {
			apply(w)
		}
		return img
	}
	full := len(img)
	if w.off+len(w.data) > full {
		full = w.off + len(w.data)
	}
	buf := make([]byte, full)
	copy(buf, img)
	for j := range w.data {
		buf[w.off+j] = vIteU8(j < k, w.data[j], buf[w.off+j])
	}
	n := vIteInt(w.off+k > len(img), w.off+k, len(img))
	return buf[:n]
}

type vPutSpan struct {
	e          vEntry
	first, end int // log records [first, end) belong to this put
}

// VerifH_C06_StorageCrash: a session (open, one or two puts, optional Finalize) is cut inside an
// arbitrary write (record chosen by case split, byte offset symbolic). Reopening either fails
// without destroying acknowledged blocks, or yields a store that has every acknowledged block with
// intact bytes and nothing that was not put; continuing and finalizing gives a valid archive.
func VerifH_C06_StorageCrash() {
	o := vSessOpts{v1: vBool("writeAsCarV1"), codec: 0x0401, storeID: vBool("storeIdentity")}
	o.dataPad = uint64(7 * vChoose("dataPad", 2))
	o.indexPad = uint64(5 * vChoose("indexPad", 2))
	roots := []cid.Cid{vCidID("root")}
	ctx := context.Background()
	f := newVFile()
	sc, err := NewReadableWritable(f, roots, o.list()...)
	vAssert("open", err == nil)
	nput := 1
	if vTier() == 1 {
		nput = 1 + vChoose("puts", 2)
	}
	var spans []vPutSpan
	for i := 0; i < nput; i++ {
		var b vEntry
		if i == 0 && vTier() == 1 && vChoose("bigBlock", 2) == 1 {
			// a payload longer than 255 bytes, so that DataSize needs more than one byte
			c := vCidT("big")
			vAssume(!vIsIdentity(c))
			big := make([]byte, 260)
			big[0] = vU8("bigFirst")
			vAssume(vValidBlock(c, big))
			b = vEntry{c, big}
			vCover("big-block", true)
		} else {
			b = vValidBlockT("blk", 1)
		}
		first := len(f.log)
		vAssert("put-ok", sc.Put(ctx, b.c.KeyString(), b.data) == nil)
		spans = append(spans, vPutSpan{b, first, len(f.log)})
	}
	vNoCollisions(spanEntries(spans))
	finalize := vChoose("finalize", 2) == 1
	finStart := len(f.log)
	if finalize {
		vAssert("finalize-ok", sc.Finalize() == nil)
	}
	// crash point
	r := vChoose("crashRecord", len(f.log)+1)
	k := 0
	if r < len(f.log) {
		k = vInt("crashByte")
		lim := 1
		if f.log[r].trunc < 0 {
			lim = len(f.log[r].data)
		}
		vAssume(k >= 0 && k <= lim)
	}
	img := vCrashImage(nil, f.log, r, k)
	acked := func(s vPutSpan) bool {
		return s.end <= r || (s.end == r+1 && f.log[r].trunc < 0 && k == len(f.log[r].data))
	}

	g := &vFile{data: img, failAt: -1, failReadAt: -1}
	preLen := len(g.data)
	sc2, err := OpenReadableWritable(g, roots, o.list()...)
	dataOff := 0
	if !o.v1 {
		dataOff = 51 + int(o.dataPad)
	}
	payloadAll, offs := vExpectedPayload(roots, vStoredEntries(o, spanEntries(spans)))
	_ = payloadAll
	// regions of the known findings, stated over the crash position relative to the write log.
	// Each region is the set of crash positions for which the unchanged code really misbehaves
	// (positions next to them, where it behaves, stay under the assertion).
	tornPut := vTornPut(f.log, spans, r, k)
	last := len(f.log) - 1 // the 24-byte offsets write of Finalize; the 16-byte characteristics precede it
	v2fin := finalize && !o.v1
	idxStarted := v2fin && (r > finStart || (r == finStart && k > 0))
	// the offsets only count once a non-zero DataSize is on disk (more than 8 bytes of the write)
	hdrOffsetsStarted := v2fin && (r > last || (r == last && k > 8))
	vRegion("torn-last-section", tornPut)
	// index bytes on disk, header offsets still zero, and no zero padding between payload and index
	vRegion("index-without-header", idxStarted && !hdrOffsetsStarted && o.indexPad == 0)
	// DataOffset complete (8 bytes) and DataSize only partly written
	vRegion("torn-v2-header", v2fin && r == last && k > 8 && k < 16)
	if err != nil {
		// refused: acknowledged sections must still be on disk, untouched
		stored := vStoredEntries(o, spanEntries(spans))
		si := 0
		for _, s := range spans {
			if si < len(stored) && stored[si].c.Equals(s.e.c) && bytes.Equal(stored[si].data, s.e.data) {
				if acked(s) {
					frameOff := dataOff + int(offs[si])
					var fr bytes.Buffer
					vWriteFrame(&fr, s.e)
					end := frameOff + fr.Len()
					vAssert("refusal-keeps-acknowledged-bytes", len(g.data) >= end && vBytesEq(g.data[frameOff:end], fr.Bytes()))
				}
				si++
			}
		}
		vCover("reopen-refused", true)
		_ = preLen
		return
	}
	vCover("reopen-succeeded", true)
	// every acknowledged block is present with intact bytes
	for _, s := range spans {
		if acked(s) && (o.storeID || !vIsIdentity(s.e.c)) {
			has, herr := sc2.Has(ctx, s.e.c.KeyString())
			vAssert("acknowledged-present", herr == nil && has)
			got, gerr := sc2.Get(ctx, s.e.c.KeyString())
			vAssert("acknowledged-intact", gerr == nil && vBytesEq(got, s.e.data))
		}
	}
	// nothing that was not put
	ii := sc2.Index().(*index.InsertionIndex)
	ii.ForEachCid(func(c cid.Cid, _ uint64) error {
		known := false
		for _, s := range spans {
			if s.e.c.Equals(c) {
				known = true
			}
		}
		vAssert("only-put-blocks", known)
		if known {
			got, gerr := sc2.Get(ctx, c.KeyString())
			okBytes := false
			for _, s := range spans {
				if s.e.c.Equals(c) && gerr == nil && vBytesEq(got, s.e.data) {
					okBytes = true
				}
			}
			vAssert("listed-block-readable-intact", okBytes)
		}
		return nil
	})
	// continue: one more put, finalize, the result must be a valid archive
	nb := vValidBlockT("more", 1)
	vNoCollisions(append(spanEntries(spans), nb))
	vAssert("continue-put", sc2.Put(ctx, nb.c.KeyString(), nb.data) == nil)
	vAssert("continue-finalize", sc2.Finalize() == nil)
	rd, rerr := carv2.NewReader(bytes.NewReader(g.data))
	vAssert("final-opens", rerr == nil)
	if rerr == nil {
		_, ierr := rd.Inspect(true)
		vAssert("final-inspect-accepts", ierr == nil)
	}
	vCover("continued", true)
}

func spanEntries(spans []vPutSpan) []vEntry {
	var es []vEntry
	for _, s := range spans {
		es = append(es, s.e)
	}
	return es
}

// VerifH_C06_CrashDuringResume: the session that is cut is itself a resumption: a finalized file
// (one acknowledged block) is reopened for writing, optionally one more block is put and the store
// finalized again; the cut falls anywhere in the writes of that second session (truncate, header
// un-finalize, put, finalize). Reopening the crash image must not lose the acknowledged blocks.
func VerifH_C06_CrashDuringResume() {
	thorough := vTier() == 1
	o := vSessOpts{v1: false, codec: 0x0401}
	o.indexPad = uint64(5 * vChoose("indexPad", 2))
	if thorough {
		o.storeID = vBool("storeIdentity")
		o.dataPad = uint64(7 * vChoose("dataPad", 2))
	}
	roots := []cid.Cid{vCidID("root")}
	ctx := context.Background()
	f := newVFile()
	sc, err := NewReadableWritable(f, roots, o.list()...)
	vAssert("open", err == nil)
	old := vValidBlockT("old", 1)
	vAssume(o.storeID || !vIsIdentity(old.c))
	vAssert("put-ok", sc.Put(ctx, old.c.KeyString(), old.data) == nil)
	vAssert("finalize-ok", sc.Finalize() == nil)
	pre := append([]byte{}, f.data...)

	// second session
	start := len(f.log)
	sc, err = OpenReadableWritable(f, roots, o.list()...)
	vAssert("resume-ok", err == nil)
	resumeEnd := len(f.log)
	var spans []vPutSpan
	if thorough && vChoose("put2", 2) == 1 {
		b := vValidBlockT("blk", 1)
		first := len(f.log)
		vAssert("put2-ok", sc.Put(ctx, b.c.KeyString(), b.data) == nil)
		spans = append(spans, vPutSpan{b, first - start, len(f.log) - start})
	}
	vNoCollisions(append(spanEntries(spans), old))
	finalize := vChoose("finalize2", 2) == 1
	finStart := len(f.log) - start
	if finalize {
		vAssert("finalize2-ok", sc.Finalize() == nil)
	}
	log := f.log[start:]
	r := vChoose("crashRecord", len(log)+1)
	k := 0
	if r < len(log) {
		k = vInt("crashByte")
		lim := 1
		if log[r].trunc < 0 {
			lim = len(log[r].data)
		}
		vAssume(k >= 0 && k <= lim)
	}
	img := vCrashImage(pre, log, r, k)
	acked := func(s vPutSpan) bool {
		return s.end <= r || (s.end == r+1 && log[r].trunc < 0 && k == len(log[r].data))
	}
	tornPut := vTornPut(log, spans, r, k)
	last := len(log) - 1
	idxStarted := finalize && (r > finStart || (r == finStart && k > 0))
	hdrOffsetsStarted := finalize && (r > last || (r == last && k > 8))
	vRegion("torn-last-section", tornPut)
	vRegion("index-without-header", idxStarted && !hdrOffsetsStarted && o.indexPad == 0)
	vRegion("torn-v2-header", finalize && r == last && k > 8 && k < 16)
	inResume := r < resumeEnd-start
	vCover("cut-inside-resume-writes", inResume && k > 0)

	g := &vFile{data: img, failAt: -1, failReadAt: -1}
	sc2, err := OpenReadableWritable(g, roots, o.list()...)
	if err != nil {
		// refused: the old acknowledged section must still be on disk
		dataOff := 51 + int(o.dataPad)
		hdrLen := len(vHeaderFrame(roots))
		var fr bytes.Buffer
		vWriteFrame(&fr, old)
		end := dataOff + hdrLen + fr.Len()
		vAssert("refusal-keeps-acknowledged-bytes", len(g.data) >= end && vBytesEq(g.data[dataOff+hdrLen:end], fr.Bytes()))
		vCover("reopen-refused", true)
		return
	}
	all := append([]vPutSpan{{e: old}}, spans...)
	for i, s := range all {
		if (i == 0 || acked(s)) && (o.storeID || !vIsIdentity(s.e.c)) {
			has, herr := sc2.Has(ctx, s.e.c.KeyString())
			vAssert("acknowledged-present", herr == nil && has)
			got, gerr := sc2.Get(ctx, s.e.c.KeyString())
			vAssert("acknowledged-intact", gerr == nil && vBytesEq(got, s.e.data))
		}
	}
	ii := sc2.Index().(*index.InsertionIndex)
	ii.ForEachCid(func(c cid.Cid, _ uint64) error {
		known := false
		for _, s := range all {
			if s.e.c.Equals(c) {
				known = true
			}
		}
		vAssert("only-put-blocks", known)
		return nil
	})
	nb := vValidBlockT("more", 1)
	vNoCollisions(append(append(spanEntries(spans), old), nb))
	vAssert("continue-put", sc2.Put(ctx, nb.c.KeyString(), nb.data) == nil)
	vAssert("continue-finalize", sc2.Finalize() == nil)
	rd, rerr := carv2.NewReader(bytes.NewReader(g.data))
	vAssert("final-opens", rerr == nil)
	if rerr == nil {
		_, ierr := rd.Inspect(true)
		vAssert("final-inspect-accepts", ierr == nil)
	}
	vCover("continued", true)
}

// vTornPut: the crash position lies inside a Put after the section's length prefix and CID are
// completely on disk but before its data is (a section whose CID is readable and whose data is
// short); an empty-data section is complete once its CID is.
func vTornPut(log []vWriteRec, spans []vPutSpan, r, k int) bool {
	for _, s := range spans {
		if s.end-s.first < 3 {
			continue
		}
		cidRec, dataRec := s.first+1, s.first+2
		cidDone := r > cidRec || (r == cidRec && k == len(log[cidRec].data))
		dataDone := r > dataRec || (r == dataRec && k == len(log[dataRec].data))
		if cidDone && !dataDone {
			return true
		}
	}
	return false
}

// VerifH_C06_TornHeaderBigPayload: a payload longer than 255 bytes (so that DataSize spans more
// than one byte) and a crash anywhere inside the 24-byte offsets write of Finalize.
func VerifH_C06_TornHeaderBigPayload() {
	o := vSessOpts{codec: 0x0401}
	o.indexPad = uint64(5 * vChoose("indexPad", 2))
	roots := []cid.Cid{vCidID("root")}
	ctx := context.Background()
	f := newVFile()
	sc, err := NewReadableWritable(f, roots, o.list()...)
	vAssert("open", err == nil)
	c := vCidT("big")
	vAssume(!vIsIdentity(c))
	big := make([]byte, 260)
	big[0] = vU8("bigFirst")
	vAssume(vValidBlock(c, big))
	vAssert("put-ok", sc.Put(ctx, c.KeyString(), big) == nil)
	vAssert("finalize-ok", sc.Finalize() == nil)
	r := len(f.log) - 1
	k := vInt("crashByte")
	vAssume(k >= 0 && k <= len(f.log[r].data))
	img := vCrashImage(nil, f.log, r, k)
	vRegion("index-without-header", k <= 8 && o.indexPad == 0)
	vRegion("torn-v2-header", k > 8 && k < 16)
	g := &vFile{data: img, failAt: -1, failReadAt: -1}
	sc2, err := OpenReadableWritable(g, roots, o.list()...)
	var fr bytes.Buffer
	vWriteFrame(&fr, vEntry{c, big})
	start := 51 + len(vHeaderFrame(roots))
	if err != nil {
		vAssert("refusal-keeps-acknowledged-bytes", len(g.data) >= start+fr.Len() && vBytesEq(g.data[start:start+fr.Len()], fr.Bytes()))
		vCover("reopen-refused", true)
		return
	}
	has, herr := sc2.Has(ctx, c.KeyString())
	vAssert("acknowledged-present", herr == nil && has)
	got, gerr := sc2.Get(ctx, c.KeyString())
	vAssert("acknowledged-intact", gerr == nil && vBytesEq(got, big))
	ii := sc2.Index().(*index.InsertionIndex)
	ii.ForEachCid(func(x cid.Cid, _ uint64) error {
		vAssert("only-put-blocks", x.Equals(c))
		return nil
	})
	vCover("reopen-succeeded", true)
}

