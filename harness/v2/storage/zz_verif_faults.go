package storage

import (
	"context"

	"github.com/ipfs/go-cid"
)

// VerifH_C16_WriteFaults: one transient write fault (error, possibly after a short write) is
// injected at an arbitrary write call of a session of two puts and Finalize. The faulted call
// reports an error, the failed block is not reported as stored, and if the caller carries on and
// the later calls succeed the finalized archive holds exactly the blocks whose Put returned nil.
func VerifH_C16_WriteFaults() {
	o := vSessOpts{v1: vBool("writeAsCarV1"), codec: 0x0401}
	o.dataPad = uint64(7 * vChoose("dataPad", 2))
	roots := []cid.Cid{vCidID("root")}
	ctx := context.Background()
	f := newVFile()
	sc, err := NewReadableWritable(f, roots, o.list()...)
	vAssert("open", err == nil)
	base := f.calls
	// the fault hits one of the next write calls
	nput, ncall := 2, 8
	if vTier() == 1 {
		nput, ncall = 3, 12 // three puts in the thorough tier
	}
	f.failAt = base + vChoose("faultCall", ncall)
	f.failShort = vInt("faultShort")
	vAssume(f.failShort >= 0 && f.failShort <= 8)

	var okPuts []vEntry
	var all []vEntry
	for i := 0; i < nput; i++ {
		b := vValidBlockT("blk", 1)
		all = append(all, b)
		vNoCollisions(all)
		failedBefore := f.failed
		lenBefore := len(f.data)
		perr := sc.Put(ctx, b.c.KeyString(), b.data)
		if f.failed > failedBefore {
			vAssert("faulted-put-errors", perr != nil)
			if !vIsIdentity(b.c) {
				dup := false
				for _, p := range okPuts {
					if vBytesEq(p.c.Hash(), b.c.Hash()) {
						dup = true
					}
				}
				has, herr := sc.Has(ctx, b.c.KeyString())
				vAssert("failed-block-not-reported", herr == nil && (has == dup))
			}
			vCover("put-faulted", true)
			// the known finding applies when bytes of the failed section reached the file: the
			// writer position was advanced by the partial section and is never rewound. (A fault
			// that wrote nothing leaves the writer where it was; that case must stay correct.)
			vRegion("writer-offset-not-rewound", len(f.data) > lenBefore)
			vCover("fault-wrote-nothing", len(f.data) == lenBefore)
		} else {
			vAssert("unfaulted-put-ok", perr == nil)
			okPuts = append(okPuts, b)
		}
	}
	failedBefore := f.failed
	ferr := sc.Finalize()
	if f.failed > failedBefore {
		vAssert("faulted-finalize-errors", ferr != nil)
		vCover("finalize-faulted", true)
		return
	}
	vAssert("finalize-ok", ferr == nil)
	stored := vStoredEntries(o, okPuts)
	vCheckFinalImage("", f.data, o, roots, stored)
	vAccepts("", f.data)
	vCover("finalized-after-fault", f.failed > 0)
	vCover("no-fault-hit", f.failed == 0)
}
