package storage

import (
	"context"

	"github.com/ipfs/go-cid"
	carv2 "github.com/ipld/go-car/v2"
)

// VerifH_C12_ResumeTransparent: a session interrupted at operation boundaries (by Finalize or by
// simply abandoning the store) and resumed with the same roots and options ends in a file that is
// byte-identical to the one an uninterrupted session writes for the same puts.
func VerifH_C12_ResumeTransparent() {
	L := 3
	if vTier() == 1 {
		L = 4
	}
	o := vSessOptions()
	roots := []cid.Cid{vCidID("root")}
	ctx := context.Background()

	f := newVFile()
	sc, err := NewReadableWritable(f, roots, o.list()...)
	vAssert("open", err == nil)
	var puts []vEntry
	resumes := 0
	for i := 0; i < L; i++ {
		switch vChoose("op", 3) {
		case 0:
			b := vValidBlockT("blk", 1)
			puts = append(puts, b)
			vAssert("put-ok", sc.Put(ctx, b.c.KeyString(), b.data) == nil)
		case 1:
			vAssert("finalize-ok", sc.Finalize() == nil)
			sc, err = OpenReadableWritable(f, roots, o.list()...)
			vAssert("reopen-after-finalize", err == nil)
			resumes++
		case 2:
			sc, err = OpenReadableWritable(f, roots, o.list()...)
			vAssert("reopen-after-abandon", err == nil)
			resumes++
		}
		// every block put so far is still there
		for _, p := range puts {
			if o.storeID || !vIsIdentity(p.c) {
				has, herr := sc.Has(ctx, p.c.KeyString())
				vAssert("put-still-present", herr == nil && has)
			}
		}
	}
	vAssert("final-finalize", sc.Finalize() == nil)

	g := newVFile()
	sd, err := NewReadableWritable(g, roots, o.list()...)
	vAssert("open2", err == nil)
	for _, p := range puts {
		vAssert("put2-ok", sd.Put(ctx, p.c.KeyString(), p.data) == nil)
	}
	vAssert("finalize2", sd.Finalize() == nil)
	vAssert("byte-identical-to-uninterrupted", vBytesEq(f.data, g.data))
	vCover("resumed-twice-with-puts", resumes >= 2 && len(puts) >= 1)
	vCover("resumed-v1", resumes >= 1 && o.v1)
	vCover("resumed-v2-padded", resumes >= 1 && !o.v1 && o.dataPad > 0)
}

// VerifH_C12_MismatchRefused: reopening with other roots, another data padding or the other CAR
// version is refused and issues no write or truncate.
func VerifH_C12_MismatchRefused() {
	o := vSessOptions()
	root := vCidID("root")
	roots := []cid.Cid{root}
	twoRoots := vChoose("twoRoots", 2) == 1
	var rootB cid.Cid
	if twoRoots {
		rootB = vCidID("rootB")
		vAssume(!rootB.Equals(root))
		roots = []cid.Cid{root, rootB}
	}
	ctx := context.Background()
	f := newVFile()
	sc, err := NewReadableWritable(f, roots, o.list()...)
	vAssert("open", err == nil)
	if vChoose("withPut", 2) == 1 {
		b := vValidBlockT("blk", 1)
		vAssert("put-ok", sc.Put(ctx, b.c.KeyString(), b.data) == nil)
	}
	finalized := vChoose("finalized", 2) == 1
	if finalized {
		vAssert("finalize-ok", sc.Finalize() == nil)
	}
	before := append([]byte{}, f.data...)
	nlog := len(f.log)
	o2 := o
	r2 := roots
	switch vChoose("mismatch", 5) {
	case 0: // a different root
		other := vCidID("otherRoot")
		vAssume(!other.Equals(root))
		r2 = []cid.Cid{other}
		if twoRoots {
			r2 = []cid.Cid{other, rootB}
		}
	case 1: // an extra root
		r2 = append(append([]cid.Cid{}, roots...), vCidID("extraRoot"))
	case 4: // same number of roots, all from the file, but one repeated: [A,B] reopened as [A,A]
		vAssume(twoRoots)
		r2 = []cid.Cid{root, root}
		vCover("repeated-root-refused", true)
	case 2: // different data padding (CARv2 only)
		vAssume(!o.v1)
		o2.dataPad = o.dataPad + 3
	case 3: // the other version
		o2.v1 = !o.v1
	}
	_, err = OpenReadableWritable(f, r2, o2.list()...)
	vAssert("refused", err != nil)
	vAssert("no-write-issued", len(f.log) == nlog)
	vAssert("bytes-unchanged", vBytesEq(f.data, before))
	vCover("refused-finalized", finalized)
	vCover("refused-unfinalized", !finalized)
	_ = carv2.PragmaSize
}

// VerifH_C12_ResumeOverNullPadding: an abandoned session whose file is followed by null padding
// (0x00 bytes, e.g. a pre-allocated file) is resumed with ZeroLengthSectionAsEOF; after one more
// put and Finalize the file is byte-identical to the uninterrupted session's.
func VerifH_C12_ResumeOverNullPadding() {
	o := vSessOptions()
	roots := []cid.Cid{vCidID("root")}
	ctx := context.Background()
	opts := append(o.list(), carv2.ZeroLengthSectionAsEOF(true))
	f := newVFile()
	sc, err := NewReadableWritable(f, roots, opts...)
	vAssert("open", err == nil)
	a := vValidBlockT("a", 1)
	b := vValidBlockT("b", 1)
	vNoCollisions([]vEntry{a, b})
	if vChoose("firstPut", 2) == 1 {
		vAssert("put-a", sc.Put(ctx, a.c.KeyString(), a.data) == nil)
	} else {
		a = vEntry{}
	}
	// null padding after the payload written so far
	npad := 1 + vChoose("nullPad", 3)
	f.data = append(f.data, make([]byte, npad)...)
	sc, err = OpenReadableWritable(f, roots, opts...)
	vAssert("resume-ok", err == nil)
	vAssert("put-b", sc.Put(ctx, b.c.KeyString(), b.data) == nil)
	vAssert("finalize", sc.Finalize() == nil)

	g := newVFile()
	sd, err := NewReadableWritable(g, roots, opts...)
	vAssert("open2", err == nil)
	if a.c.Defined() {
		vAssert("put2-a", sd.Put(ctx, a.c.KeyString(), a.data) == nil)
	}
	vAssert("put2-b", sd.Put(ctx, b.c.KeyString(), b.data) == nil)
	vAssert("finalize2", sd.Finalize() == nil)
	// the padding beyond what the continued session overwrote may remain as trailing zeros in
	// CARv1 mode only if nothing was written over it; compare the uninterrupted prefix
	vAssert("byte-identical-prefix", len(f.data) >= len(g.data) && vBytesEq(f.data[:len(g.data)], g.data))
	if !o.v1 {
		vAssert("byte-identical-v2", len(f.data) == len(g.data))
	}
	vCover("resumed-over-padding-v1", o.v1)
	vCover("resumed-over-padding-v2", !o.v1)
}

// VerifH_C12_ResumeUnderLimits: resumption with non-default size limits: the CARv1 header (two
// roots, about 40 bytes) is longer than MaxAllowedSectionSize (16) and shorter than
// MaxAllowedHeaderSize (64), sections stay below 16 bytes. An interrupted (abandoned or finalized)
// and resumed session ends in the same bytes as an uninterrupted one.
func VerifH_C12_ResumeUnderLimits() {
	o := vSessOpts{v1: vBool("writeAsCarV1"), codec: 0x0401, storeID: vBool("storeIdentity")}
	opts := append(o.list(), carv2.MaxAllowedSectionSize(16), carv2.MaxAllowedHeaderSize(64))
	roots := []cid.Cid{vCidID("root"), vCidID("root2")}
	ctx := context.Background()
	f := newVFile()
	sc, err := NewReadableWritable(f, roots, opts...)
	vAssert("open", err == nil)
	b1, b2 := vValidBlockT("b1", 1), vValidBlockT("b2", 1)
	vNoCollisions([]vEntry{b1, b2})
	vAssert("put1", sc.Put(ctx, b1.c.KeyString(), b1.data) == nil)
	if vChoose("interruption", 2) == 1 {
		vAssert("finalize-ok", sc.Finalize() == nil)
	}
	sc, err = OpenReadableWritable(f, roots, opts...)
	vAssert("reopen-under-limits", err == nil)
	vAssert("put2", sc.Put(ctx, b2.c.KeyString(), b2.data) == nil)
	vAssert("final-finalize", sc.Finalize() == nil)

	g := newVFile()
	sd, err := NewReadableWritable(g, roots, opts...)
	vAssert("open2", err == nil)
	vAssert("put1b", sd.Put(ctx, b1.c.KeyString(), b1.data) == nil)
	vAssert("put2b", sd.Put(ctx, b2.c.KeyString(), b2.data) == nil)
	vAssert("finalize2", sd.Finalize() == nil)
	vAssert("byte-identical-to-uninterrupted", vBytesEq(f.data, g.data))
	vCover("resumed-under-limits", true)
}
