package storage

import (
	"bytes"
	"context"
	"encoding/binary"

	"github.com/ipfs/go-cid"
	carv2 "github.com/ipld/go-car/v2"
	"github.com/ipld/go-car/v2/index"
	"github.com/ipld/go-car/v2/internal/carv1"
	"github.com/ipld/go-car/v2/internal/carv1/util"
	"github.com/multiformats/go-multicodec"
)

type vSessOpts struct {
	dataPad, indexPad uint64
	codec             multicodec.Code
	storeID, v1       bool
}

func vSessOptions() vSessOpts {
	o := vSessOpts{storeID: vBool("storeIdentity"), v1: vBool("writeAsCarV1")}
	o.dataPad = uint64(7 * vChoose("dataPad", 2))
	o.indexPad = uint64(5 * vChoose("indexPad", 2))
	o.codec = multicodec.CarMultihashIndexSorted
	if vChoose("codec", 2) == 1 {
		o.codec = multicodec.CarIndexSorted
	}
	return o
}

func (o vSessOpts) list() []carv2.Option {
	return []carv2.Option{
		carv2.StoreIdentityCIDs(o.storeID), carv2.WriteAsCarV1(o.v1),
		carv2.UseDataPadding(o.dataPad), carv2.UseIndexPadding(o.indexPad), carv2.UseIndexCodec(o.codec),
	}
}

// vValidBlockT: block from the collision alphabet whose data hashes to its CID.
func vValidBlockT(tag string, maxData int) vEntry {
	c := vCidT(tag)
	if c.Prefix().MhType == 0 {
		// identity: the data is the digest
		return vEntry{c, vIdentityPayload(c)}
	}
	data := vBytes(tag+".data", vChoose(tag+".len", maxData+1))
	vAssume(vValidBlock(c, data))
	return vEntry{c, data}
}

func vHeaderFrame(roots []cid.Cid) []byte {
	var buf bytes.Buffer
	if err := carv1.WriteHeader(&carv1.CarHeader{Roots: roots, Version: 1}, &buf); err != nil {
		panic("vHeaderFrame")
	}
	return buf.Bytes()
}

// vExpectedPayload: header frame ‖ sections of the stored entries; offs receives section offsets.
func vExpectedPayload(roots []cid.Cid, entries []vEntry) ([]byte, []uint64) {
	var buf bytes.Buffer
	buf.Write(vHeaderFrame(roots))
	offs := make([]uint64, len(entries))
	for i, e := range entries {
		offs[i] = uint64(buf.Len())
		if err := util.LdWrite(&buf, e.c.Bytes(), e.data); err != nil {
			panic("vExpectedPayload")
		}
	}
	return buf.Bytes(), offs
}

// vStoredEntries applies the default put rules (dedup by multihash, identity skipped unless stored).
func vStoredEntries(o vSessOpts, puts []vEntry) []vEntry {
	m := &vModel{storeID: o.storeID, maxCid: 2048}
	for _, p := range puts {
		m.put(p.c, p.data)
	}
	return m.entries
}

// vCheckFinalImage is the reference decoder for a finalized file.
func vCheckFinalImage(tagp string, img []byte, o vSessOpts, roots []cid.Cid, stored []vEntry) {
	payload, offs := vExpectedPayload(roots, stored)
	if o.v1 {
		vAssert(tagp+"v1-file-is-payload", vBytesEq(img, payload))
		return
	}
	dataOff := 51 + o.dataPad
	idxOff := dataOff + uint64(len(payload)) + o.indexPad
	vAssert(tagp+"long-enough", uint64(len(img)) > idxOff)
	vAssert(tagp+"pragma", vBytesEq(img[:11], carv2.Pragma))
	vAssert(tagp+"hdr-data-offset", binary.LittleEndian.Uint64(img[27:35]) == dataOff)
	vAssert(tagp+"hdr-data-size", binary.LittleEndian.Uint64(img[35:43]) == uint64(len(payload)))
	vAssert(tagp+"hdr-index-offset", binary.LittleEndian.Uint64(img[43:51]) == idxOff)
	hi := binary.LittleEndian.Uint64(img[11:19])
	lo := binary.LittleEndian.Uint64(img[19:27])
	wantHi := uint64(0)
	if o.storeID {
		wantHi = 0x80
	}
	vAssert(tagp+"fully-indexed-flag", hi == wantHi && lo == 0)
	vAssert(tagp+"payload-bytes", vBytesEq(img[dataOff:dataOff+uint64(len(payload))], payload))
	// index: exactly the serialisation of the stored records
	recs := make([]index.Record, len(stored))
	for i, e := range stored {
		recs[i] = index.Record{Cid: e.c, Offset: offs[i]}
	}
	want, err := index.New(o.codec)
	vAssert(tagp+"codec-known", err == nil)
	vAssert(tagp+"ref-load", want.Load(recs) == nil)
	var wb bytes.Buffer
	_, err = index.WriteTo(want, &wb)
	vAssert(tagp+"ref-write", err == nil)
	vAssert(tagp+"index-bytes", vBytesEq(img[idxOff:], wb.Bytes()))
}

func vAccepts(tagp string, img []byte) {
	rd, err := carv2.NewReader(bytes.NewReader(img))
	vAssert(tagp+"reader-opens", err == nil)
	_, err = rd.Inspect(true)
	vAssert(tagp+"inspect-accepts", err == nil)
}

// VerifH_C05_StorageSession: open, up to two (thorough: three) puts, Finalize; the file is exactly the documented
// layout for every padding / codec / identity / version configuration, and Inspect(true) accepts it.
func VerifH_C05_StorageSession() {
	o := vSessOptions()
	roots := []cid.Cid{vCidID("root")}
	f := newVFile()
	sc, err := NewReadableWritable(f, roots, o.list()...)
	vAssert("open", err == nil)
	np, md := 3, 1
	if vTier() == 1 {
		np, md = 4, 2 // up to three puts, data 0..2 bytes
	}
	n := vChoose("puts", np)
	var puts []vEntry
	for i := 0; i < n; i++ {
		b := vValidBlockT("blk", md)
		puts = append(puts, b)
		vAssert("put-ok", sc.Put(context.Background(), b.c.KeyString(), b.data) == nil)
	}
	vAssert("finalize-ok", sc.Finalize() == nil)
	stored := vStoredEntries(o, puts)
	vCheckFinalImage("", f.data, o, roots, stored)
	vAccepts("", f.data)
	vCover("empty-session", n == 0)
	vCover("two-stored", len(stored) == 2)
	vCover("dedup-or-identity-skipped", len(stored) < n)
	vCover("v2-padded", !o.v1 && o.dataPad > 0 && o.indexPad > 0)
}

// VerifH_C05_HeaderArithmetic: for all sizes and paddings whose sum does not wrap, the header
// fields are 51+dp, size, 51+dp+size+ip; WriteTo/ReadFrom round-trip them.
func VerifH_C05_HeaderArithmetic() {
	dp, ip, size := vU64("dataPad"), vU64("indexPad"), vU64("size")
	vAssume(dp < 1<<61 && ip < 1<<61 && size < 1<<61 && size > 0)
	h := carv2.NewHeader(0).WithDataPadding(dp).WithIndexPadding(ip).WithDataSize(size)
	vAssert("data-offset", h.DataOffset == 51+dp)
	vAssert("data-size", h.DataSize == size)
	vAssert("index-offset", h.IndexOffset == 51+dp+size+ip)
	var buf bytes.Buffer
	n, err := h.WriteTo(&buf)
	vAssert("write", err == nil && n == 40 && buf.Len() == 40)
	var back carv2.Header
	m, err := back.ReadFrom(&buf)
	vAssert("read", err == nil && m == 40)
	vAssert("roundtrip", back == h)
	vCover("any", true)
}

func vWriteFrame(buf *bytes.Buffer, e vEntry) {
	if err := util.LdWrite(buf, e.c.Bytes(), e.data); err != nil {
		panic("vWriteFrame")
	}
}

// vNoCollisions: assumption "the hash functions are collision free on the blocks of this run":
// two blocks with the same multihash have the same bytes.
func vNoCollisions(es []vEntry) {
	for i := range es {
		for j := i + 1; j < len(es); j++ {
			vAssume(vImplies(vBytesEq(es[i].c.Hash(), es[j].c.Hash()), vBytesEq(es[i].data, es[j].data)))
		}
	}
}
