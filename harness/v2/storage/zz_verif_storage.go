package storage

import (
	"context"
	"errors"
	"io"

	"github.com/ipfs/go-cid"
	carv2 "github.com/ipld/go-car/v2"
)

// vFile: in-memory ReaderAtWriterAt with Truncate, a write log and optional fault injection.
type vWriteRec struct {
	off   int
	data  []byte
	trunc int // >= 0: a Truncate(trunc) instead of a write
}

type vFile struct {
	data  []byte
	pos   int
	log   []vWriteRec
	calls int
	// fault injection: the failAt-th write call (0-based) writes only failShort bytes and errors
	failAt    int
	failShort int
	failed    int
	// read fault injection: the failReadAt-th ReadAt call (0-based) returns an error and no data
	reads      int
	failReadAt int
	readFailed int
}

var errVFault = errors.New("vFile: injected write fault")

func newVFile() *vFile { return &vFile{failAt: -1, failReadAt: -1} }

func (f *vFile) ReadAt(p []byte, off int64) (int, error) {
	call := f.reads
	f.reads++
	if call == f.failReadAt {
		f.readFailed++
		return 0, errVFault
	}
	if off < 0 {
		return 0, errors.New("vFile: negative offset")
	}
	if off >= int64(len(f.data)) {
		return 0, io.EOF
	}
	n := copy(p, f.data[off:])
	if n < len(p) {
		return n, io.EOF
	}
	return n, nil
}

func (f *vFile) writeAt(p []byte, off int) (int, error) {
	call := f.calls
	f.calls++
	n := len(p)
	var err error
	if call == f.failAt {
		if f.failShort < n {
			n = f.failShort
		}
		err = errVFault
		f.failed++
	}
	if len(f.data) < off+n {
		f.data = append(f.data, make([]byte, off+n-len(f.data))...)
	}
	copy(f.data[off:], p[:n])
	f.log = append(f.log, vWriteRec{off: off, data: append([]byte{}, p[:n]...), trunc: -1})
	return n, err
}

func (f *vFile) WriteAt(p []byte, off int64) (int, error) {
	if off < 0 {
		return 0, errors.New("vFile: negative offset")
	}
	return f.writeAt(p, int(off))
}

func (f *vFile) Write(p []byte) (int, error) {
	n, err := f.writeAt(p, f.pos)
	f.pos += n
	return n, err
}

func (f *vFile) Truncate(size int64) error {
	if size < 0 {
		return errors.New("vFile: negative size")
	}
	if int64(len(f.data)) < size {
		f.data = append(f.data, make([]byte, int(size)-len(f.data))...)
	}
	f.data = f.data[:size]
	f.log = append(f.log, vWriteRec{trunc: int(size)})
	return nil
}

type vEntry struct {
	c    cid.Cid
	data []byte
}

type vModel struct {
	entries                     []vEntry
	storeID, allowDup, useWhole bool
	maxCid                      uint64
}

func vIsIdentity(c cid.Cid) bool { return c.Prefix().MhType == 0 }

func vSameKey(useWhole bool, a, b cid.Cid) bool {
	if useWhole {
		return a.Equals(b)
	}
	return vBytesEq(a.Hash(), b.Hash())
}

func (m *vModel) has(q cid.Cid) bool {
	if !m.storeID && vIsIdentity(q) {
		return true
	}
	for _, e := range m.entries {
		if vSameKey(m.useWhole, e.c, q) {
			return true
		}
	}
	return false
}

// put applies the documented rules; returns whether an error is expected.
func (m *vModel) put(c cid.Cid, data []byte) (wantErr bool) {
	if !m.storeID && vIsIdentity(c) {
		return false
	}
	if uint64(len(c.Bytes())) > m.maxCid {
		return true
	}
	if !m.allowDup {
		for _, e := range m.entries {
			if vSameKey(m.useWhole, e.c, c) {
				return false
			}
		}
	}
	m.entries = append(m.entries, vEntry{c, data})
	return false
}

func vOpts(m *vModel, v1 bool) []carv2.Option {
	opts := []carv2.Option{
		carv2.StoreIdentityCIDs(m.storeID),
		carv2.AllowDuplicatePuts(m.allowDup),
		carv2.UseWholeCIDs(m.useWhole),
		carv2.WriteAsCarV1(v1),
	}
	if m.maxCid != 2048 {
		opts = append(opts, carv2.MaxIndexCidSize(m.maxCid))
	}
	return opts
}

func vNewModel() *vModel {
	m := &vModel{storeID: vBool("storeIdentity"), allowDup: vBool("allowDup"), useWhole: vBool("useWholeCIDs"), maxCid: 2048}
	if vChoose("maxCid", 2) == 1 {
		m.maxCid = 5
	}
	return m
}

func vCheckQueries(tagp string, sc *StorageCar, m *vModel, q cid.Cid) {
	ctx := context.Background()
	has, err := sc.Has(ctx, q.KeyString())
	vAssert(tagp+"has-no-error", err == nil)
	vAssert(tagp+"has-matches-model", has == m.has(q))
	got, gerr := sc.Get(ctx, q.KeyString())
	if !m.storeID && vIsIdentity(q) {
		vAssert(tagp+"get-identity-digest", gerr == nil && vBytesEq(got, vIdentityPayload(q)))
		return
	}
	if !m.has(q) {
		var nf ErrNotFound
		vAssert(tagp+"get-notfound", gerr != nil && errors.As(gerr, &nf))
		return
	}
	vAssert(tagp+"get-ok", gerr == nil)
	match := false
	for _, e := range m.entries {
		if vSameKey(m.useWhole, e.c, q) && vBytesEq(e.data, got) {
			match = true
		}
	}
	vAssert(tagp+"get-returns-stored-bytes", match)
}

// VerifH_C04_StorageHistory: bounded histories on a readable-writable storage CAR against a
// reference map model, for all option configurations and a collision alphabet of CIDs.
func VerifH_C04_StorageHistory() {
	L, maxLen := 2, 1
	if vTier() == 1 {
		maxLen = 2 // (a third put with every option configuration runs for more than an hour)
	}
	m := vNewModel()
	v1 := vBool("writeAsCarV1")
	root := vCidID("root")
	f := newVFile()
	sc, err := NewReadableWritable(f, []cid.Cid{root}, vOpts(m, v1)...)
	vAssert("open", err == nil)
	ctx := context.Background()
	for i := 0; i < L; i++ {
		c := vCidT("put")
		data := vBytes("data", vChoose("len", maxLen+1))
		before := len(f.data)
		nbefore := len(m.entries)
		wantErr := m.put(c, data)
		perr := sc.Put(ctx, c.KeyString(), data)
		vAssert("put-error-iff-too-large", (perr != nil) == wantErr)
		if len(m.entries) == nbefore {
			vAssert("skipped-put-writes-nothing", len(f.data) == before)
			vCover("put-skipped", perr == nil)
			vCover("put-rejected", perr != nil)
		} else {
			vAssert("stored-put-appends", len(f.data) > before)
			vCover("put-stored", true)
		}
		vCheckQueries("", sc, m, vCidT("q"))
	}
	vAssert("roots", len(sc.Roots()) == 1 && sc.Roots()[0].Equals(root))
	ferr := sc.Finalize()
	vAssert("finalize-ok", ferr == nil)
	snapshot := append([]byte{}, f.data...)
	c := vCidT("late")
	perr := sc.Put(ctx, c.KeyString(), []byte{1})
	vAssert("put-after-finalize-errors", perr != nil)
	vAssert("file-unchanged-after-finalize", vBytesEq(f.data, snapshot))
	_, herr := sc.Has(ctx, c.KeyString())
	vAssert("has-after-finalize-errors", herr != nil)
	if m.storeID || !vIsIdentity(c) {
		_, gerr := sc.Get(ctx, c.KeyString())
		vAssert("get-after-finalize-errors", gerr != nil)
	}
	vCover("finalized-v2", !v1)
}
