package car

import (
	"io"
)

// VerifH_C02_BlockReaderNext: v2 BlockReader over a valid CARv1 header followed by N arbitrary
// bytes cut at an arbitrary position. Every returned block hashes to its CID; a clean io.EOF is
// only reported at a section boundary (or on a zero length byte under ZeroLengthSectionAsEOF).
func VerifH_C02_BlockReaderNext() {
	N := 12
	if vTier() == 1 {
		N = 14 // 16 bytes: several hours
	}
	vC02BlockReader(N, true)
}

// VerifH_C02_BlockReaderNextDefaultLimit: the same with the default 8 MiB section limit, so that a
// length prefix may announce far more bytes than the stream holds (N = 7, thorough 9).
func VerifH_C02_BlockReaderNextDefaultLimit() {
	N := 7
	if vTier() == 1 {
		N = 9
	}
	vC02BlockReader(N, false)
}

func vC02BlockReader(N int, smallLimit bool) {
	root := vIdentityCid([]byte("r"))
	hdr := vHeaderV1(root)
	in := vBytes("in", N)
	n := vInt("n")
	vAssume(n >= 0 && n <= N)
	zl := vBool("zeroLen")
	src := &vStream{data: vCat(hdr, in[:n])}
	// section size limit: N (every longer length prefix is rejected), or the 8 MiB default, under
	// which a length prefix announcing up to 8 MiB is followed by a stream that ends early
	opts := []Option{ZeroLengthSectionAsEOF(zl)}
	if smallLimit {
		opts = append(opts, MaxAllowedSectionSize(uint64(N-1))) // a section exactly at the limit fits into the input
	}
	br, err := NewBlockReader(src, opts...)
	vAssert("header-accepted", err == nil && br.Version == 1 && len(br.Roots) == 1 && br.Roots[0].Equals(root))
	vAssert("header-consumed-exactly", src.pos == len(hdr))
	for i := 0; i < 4; i++ {
		before := src.pos
		blk, err := br.Next()
		if err == nil {
			c := blk.Cid()
			h, herr := c.Prefix().Sum(blk.RawData())
			vAssert("integrity", herr == nil && h.Equals(c))
			vAssert("progress", src.pos > before)
			vCover("block-returned", true)
			if smallLimit {
				vCover("second-block-returned", i == 1)
			}
			continue
		}
		if err == io.EOF {
			consumed := src.pos - before
			vRegion("cut-after-length-varint", consumed > 0 && src.pos == len(src.data) && !(zl && src.data[before] == 0))
			vAssert("clean-eof-only-at-boundary", consumed == 0 || (zl && consumed == 1 && src.data[before] == 0))
			vCover("clean-eof", consumed == 0)
			vCover("null-padding-eof", consumed == 1)
			// the reader stays usable after its end (no panic, no block out of nowhere)
			if consumed == 0 {
				again, aerr := br.Next()
				vAssert("nothing-after-the-end", again == nil && aerr != nil)
			}
			return
		}
		vCover("error-reported", true)
		return
	}
}

// VerifH_C02_BlockReaderDataWithEOF: the same oracle over a source that delivers its last bytes
// together with io.EOF (allowed by the io.Reader contract): truncation inside a section must
// still not look like a clean end.
func VerifH_C02_BlockReaderDataWithEOF() {
	N := 9
	if vTier() == 1 {
		N = 12
	}
	root := vIdentityCid([]byte("r"))
	hdr := vHeaderV1(root)
	in := vBytes("in", N)
	n := vInt("n")
	vAssume(n >= 0 && n <= N)
	src := &vEOFStream{data: vCat(hdr, in[:n])}
	br, err := NewBlockReader(src, MaxAllowedSectionSize(uint64(N)))
	vAssert("header-accepted", err == nil)
	for i := 0; i < 4; i++ {
		before := src.pos
		blk, err := br.Next()
		if err == nil {
			c := blk.Cid()
			h, herr := c.Prefix().Sum(blk.RawData())
			vAssert("integrity", herr == nil && h.Equals(c))
			vCover("block-returned", true)
			continue
		}
		if err == io.EOF {
			vAssert("clean-eof-only-at-boundary", src.pos == before)
			vCover("clean-eof", true)
			return
		}
		vCover("error-reported", true)
		return
	}
}

// VerifH_C02_SkipNextTruncation: the same "no silent truncation" oracle for the metadata-only
// scan: a valid CARv1 header followed by N arbitrary bytes cut anywhere, walked with SkipNext over
// a plain and over a seekable source: a clean io.EOF is reported only when the failing call
// consumed nothing (the cut is on a section boundary), or on a zero length byte under
// ZeroLengthSectionAsEOF.
func VerifH_C02_SkipNextTruncation() {
	N := 9
	if vTier() == 1 {
		N = 11
	}
	root := vIdentityCid([]byte("r"))
	hdr := vHeaderV1(root)
	in := vBytes("in", N)
	n := vInt("n")
	vAssume(n >= 0 && n <= N)
	zl := vBool("zeroLen")
	data := vCat(hdr, in[:n])
	var src io.Reader
	var st *vStream
	if vChoose("seekable", 2) == 1 {
		s := &vSeekStream{vStream{data: data}}
		src, st = s, &s.vStream
	} else {
		s := &vStream{data: data}
		src, st = s, s
	}
	br, err := NewBlockReader(src, ZeroLengthSectionAsEOF(zl), MaxAllowedSectionSize(uint64(N-1)))
	vAssert("header-accepted", err == nil)
	for i := 0; i < 4; i++ {
		before := st.pos
		md, err := br.SkipNext()
		if err == nil {
			vAssert("progress", st.pos > before)
			vAssert("section-inside-input", md.SourceOffset+md.Size <= uint64(len(data)))
			vCover("skipped", true)
			continue
		}
		if err == io.EOF {
			consumed := st.pos - before
			vAssert("clean-eof-only-at-boundary", consumed == 0 || (zl && consumed == 1 && data[before] == 0))
			vCover("clean-eof", consumed == 0 && i > 0)
			return
		}
		vCover("error-reported", true)
		return
	}
}
