package car

import (
	"bytes"
	"io"

	"github.com/ipfs/go-cid"
	"github.com/ipld/go-car/v2/index"
	"github.com/ipld/go-car/v2/internal/carv1/util"
	internalio "github.com/ipld/go-car/v2/internal/io"
	"github.com/multiformats/go-multicodec"
)

// vRecorder is an index.Index that only records what LoadIndex hands to Load.
type vRecorder struct {
	recs   []index.Record
	loaded int
}

func (r *vRecorder) Codec() multicodec.Code              { return multicodec.CarIndexSorted }
func (r *vRecorder) Marshal(w io.Writer) (uint64, error) { return 0, nil }
func (r *vRecorder) Unmarshal(rd io.Reader) error        { return nil }
func (r *vRecorder) Load(rs []index.Record) error {
	r.recs = append(r.recs, rs...)
	r.loaded++
	return nil
}
func (r *vRecorder) GetAll(c cid.Cid, f func(uint64) bool) error { return index.ErrNotFound }

// vPayload builds header ‖ sections with the real LdWrite and returns the true offsets.
func vPayload(hdr []byte, secs []vSection) []byte {
	var buf bytes.Buffer
	buf.Write(hdr)
	for i := range secs {
		secs[i].off = uint64(buf.Len())
		if err := util.LdWrite(&buf, secs[i].c.Bytes(), secs[i].data); err != nil {
			panic("vPayload")
		}
	}
	return buf.Bytes()
}

// vWrapV2 places payload in a CARv2 container with the given data padding, index offset and tail.
func vWrapV2(payload []byte, pad int, indexOffset uint64, tail []byte) []byte {
	var buf bytes.Buffer
	buf.Write(Pragma)
	h := Header{DataOffset: uint64(PragmaSize + HeaderSize + pad), DataSize: uint64(len(payload)), IndexOffset: indexOffset}
	if _, err := h.WriteTo(&buf); err != nil {
		panic("vWrapV2")
	}
	buf.Write(make([]byte, pad))
	buf.Write(payload)
	buf.Write(tail)
	return buf.Bytes()
}

func vReaderKind(kind int, data []byte) io.Reader {
	switch kind {
	case 0:
		return &vSeekStream{vStream{data: data}}
	case 1:
		return &vStream{data: data}
	case 2:
		r, err := internalio.NewOffsetReadSeeker(&vReaderAt{data: data}, 0)
		if err != nil {
			panic("vReaderKind")
		}
		return r
	case 4:
		// not seekable, but an io.ByteReader (like bufio.Reader or bytes.Buffer)
		return &vByteStream{vStream{data: data}}
	default:
		return io.NewSectionReader(&vReaderAt{data: data}, 0, int64(len(data)))
	}
}

type vByteStream struct{ vStream }

func (s *vByteStream) ReadByte() (byte, error) {
	if s.pos >= len(s.data) {
		return 0, io.EOF
	}
	b := s.data[s.pos]
	s.pos++
	if s.pos > s.maxPos {
		s.maxPos = s.pos
	}
	return b, nil
}

// VerifH_C03_LoadIndexScan: LoadIndex over a payload of two sections (collision alphabet, data
// lengths 0..2), as CARv1 or as CARv2 with data padding and trailing bytes, through four reader
// kinds, hands Load exactly [(cid_i, true payload offset_i)] minus identity CIDs when the
// store-identity option is off.
func VerifH_C03_LoadIndexScan() {
	root := vIdentityCid([]byte("r"))
	hdr := vHeaderV1(root)
	secs := []vSection{
		{c: vCidT("c1"), data: vBytes("d1", vChoose("n1", 3))},
		{c: vCidT("c2"), data: vBytes("d2", vChoose("n2", 2))},
	}
	payload := vPayload(hdr, secs)
	storeID := vBool("storeIdentity")
	kind := vChoose("readerKind", 5)
	var file []byte
	isV2 := vChoose("v2", 2) == 1
	if isV2 {
		pad := 3 * vChoose("pad", 2)
		file = vWrapV2(payload, pad, 0, vBytes("tail", 2))
	} else {
		file = payload
	}
	rec := &vRecorder{}
	err := LoadIndex(rec, vReaderKind(kind, file), StoreIdentityCIDs(storeID))
	vRegion("plain-reader-offsets", kind == 1)
	vAssert("no-error", err == nil)
	vAssert("loaded-once", rec.loaded == 1)
	var want []vSection
	for _, s := range secs {
		if storeID || s.c.Prefix().MhType != 0 {
			want = append(want, s)
		}
	}
	vAssert("record-count", len(rec.recs) == len(want))
	for i := range want {
		if i < len(rec.recs) {
			vAssert("record-cid", rec.recs[i].Cid.Equals(want[i].c))
			vAssert("record-offset", rec.recs[i].Offset == want[i].off)
		}
	}
	vCover("identity-skipped", len(want) < 2)
	vCover("both-indexed", len(want) == 2)
	vCover("v2-plain-reader", isV2 && kind == 1 && err == nil)
}
