package car

import (
	"errors"

	"github.com/ipld/go-car/v2/internal/carv1/util"
)

// VerifH_C09_HeaderLimits: for every MaxAllowedHeaderSize / MaxAllowedSectionSize setting, each
// entry point that buffers a CAR header rejects one longer than the header limit with the
// too-large error and accepts one exactly at the limit - for a bare CARv1 and for the inner header
// of a CARv2 - independently of the section limit.
func VerifH_C09_HeaderLimits() {
	root := vCidID("root")
	hdr := vHeaderV1(root)
	L := uint64(len(hdr) - 1) // encoded header length (the length prefix is one byte)
	maxH := vU64("maxHeader")
	maxS := vU64("maxSection")
	vAssume(maxH < 1<<32 && maxS < 1<<32)
	opts := []Option{MaxAllowedHeaderSize(maxH), MaxAllowedSectionSize(maxS)}
	isV2 := vChoose("v2", 2) == 1
	file := hdr
	tooLarge := L > maxH
	if isV2 {
		file = vWrapV2(hdr, 0, 0, nil)
		tooLarge = 10 > maxH || L > maxH // the 10-byte pragma is read as a header as well
	}
	var err error
	switch vChoose("entry", 4) {
	case 0:
		_, err = NewBlockReader(&vStream{data: file}, opts...)
	case 1:
		_, err = NewBlockReader(&vSeekStream{vStream{data: file}}, opts...)
	case 2:
		var rd *Reader
		rd, err = NewReader(&vReaderAt{data: file}, opts...)
		if err == nil {
			_, err = rd.Roots()
		}
	case 3:
		err = LoadIndex(&vRecorder{}, &vSeekStream{vStream{data: file}}, opts...)
	}
	vAssert("too-large-iff-above-header-limit", errors.Is(err, util.ErrHeaderTooLarge) == tooLarge)
	vAssert("accepted-at-or-below-limit", tooLarge || err == nil)
	vCover("exactly-at-limit", !tooLarge && maxH == L)
	vCover("one-above-limit", maxH+1 == L)
	vCover("section-limit-below-header", !tooLarge && maxS < L && isV2)
}
