package car

import (
	"bytes"

	"github.com/ipld/go-car/v2/index"
)

// vField: a header field that is either one of the boundary positions of the file layout or an
// arbitrary 64-bit value beyond the end of the file (covers 2^63, 2^64-1 and every wrap-around).
func vField(tag string, fileLen, payloadLen int) uint64 {
	marks := []uint64{0, 51, uint64(51 + payloadLen)}
	if vTier() == 1 {
		marks = []uint64{0, 1, 50, 51, 52, uint64(51 + payloadLen - 1), uint64(51 + payloadLen), uint64(51 + payloadLen + 1), uint64(payloadLen), uint64(fileLen)}
	}
	k := vChoose(tag+".class", len(marks)+1)
	if k < len(marks) {
		return marks[k]
	}
	v := vU64(tag)
	vAssume(v > uint64(fileLen)+1)
	return v
}

// VerifH_C09_V2ContainerFields: a CARv2 whose three header offsets are boundary positions of the
// layout or arbitrary 64-bit values beyond the file (characteristics arbitrary), followed by a valid payload and K arbitrary bytes cut anywhere, through
// every parsing entry point of package car: none panics, every loop terminates, and every
// input-sized allocation inside go-car stays within the input length plus slack.
func VerifH_C09_V2ContainerFields() {
	K := 2
	if vTier() == 1 {
		K = 4
	}
	root := vCidID("root")
	payload := vPayload(vHeaderV1(root), []vSection{{c: vCidID("c1"), data: []byte{7}}})
	K0 := 2
	if vTier() == 1 {
		K0 = 4
	}
	fl := 51 + len(payload) + K0
	h := Header{
		Characteristics: Characteristics{Hi: vU64("charHi"), Lo: vU64("charLo")},
		DataOffset:      vField("dataOffset", fl, len(payload)),
		DataSize:        vField("dataSize", fl, len(payload)),
		IndexOffset:     vField("indexOffset", fl, len(payload)),
	}
	var buf bytes.Buffer
	buf.Write(Pragma)
	if _, err := h.WriteTo(&buf); err != nil {
		panic("header")
	}
	buf.Write(payload)
	tail := vBytes("tail", K)
	n := vInt("n")
	vAssume(n >= 0 && n <= K)
	buf.Write(tail[:n])
	file := buf.Bytes()
	// small configured limits, so that "limit + input size" is a tight allocation bound
	lim := []Option{MaxAllowedHeaderSize(64), MaxAllowedSectionSize(64)}
	vAllocCheck(true, 128, uint64(len(file)+64))
	switch vChoose("entry", 6) {
	case 0, 1:
		var br *BlockReader
		var err error
		if vChoose("seekable", 2) == 1 {
			br, err = NewBlockReader(&vSeekStream{vStream{data: file}}, lim...)
		} else {
			br, err = NewBlockReader(&vStream{data: file}, lim...)
		}
		if err == nil {
			for i := 0; i < 3; i++ {
				if vChoose("skip", 2) == 1 {
					if _, err := br.SkipNext(); err != nil {
						break
					}
				} else if _, err := br.Next(); err != nil {
					break
				}
			}
			vCover("blockreader-opened", true)
		}
	case 2:
		rd, err := NewReader(&vReaderAt{data: file}, lim...)
		if err == nil {
			rd.Roots()
			rd.Inspect(vBool("validate"))
			if ir, err := rd.IndexReader(); err == nil && ir != nil {
				index.ReadFrom(ir)
			}
			vCover("reader-opened", true)
		}
	case 3:
		kind := 1
		if vTier() == 1 {
			kind = vChoose("readerKind", 4)
		}
		LoadIndex(&vRecorder{}, vReaderKind(kind, file), lim...)
	case 4:
		ReadOrGenerateIndex(&vSeekStream{vStream{data: file}}, lim...)
	case 5:
		p, q := vFSPath("in.car"), vFSPath("out.car")
		vFSWriteFile(p, file)
		if vChoose("replaceRoots", 2) == 1 {
			ReplaceRootsInFile(p, nil, lim...)
		} else {
			ExtractV1File(p, q, lim...)
		}
	}
	vAllocCheck(false, 0, 0)
	vCover("any-entry-returned", true)
}
