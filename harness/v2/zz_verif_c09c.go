package car

// VerifH_C09_LoadIndexArbitrary: index generation over a valid CARv1 header followed by N arbitrary
// bytes cut anywhere (as a bare CARv1 or inside a CARv2 container), through a seekable, a plain and
// an offset reader, with ZeroLengthSectionAsEOF and StoreIdentityCIDs arbitrary: no panic path is
// feasible, the scan terminates within the unwinding bound, every iteration makes progress (the
// recorded offsets are strictly increasing and inside the input), the number of records is bounded
// by the input length, and allocations stay within the input size plus slack.
func VerifH_C09_LoadIndexArbitrary() {
	N := 6
	if vTier() == 1 {
		N = 8 // 8 bytes: ~67 k paths, half an hour on a loaded machine
	}
	root := vCidID("root")
	hdr := vHeaderV1(root)
	in := vBytes("in", N)
	n := vInt("n")
	vAssume(n >= 0 && n <= N)
	payload := vCat(hdr, in[:n])
	file := payload
	base := 0
	if vChoose("v2", 2) == 1 {
		pad := 3 * vChoose("pad", 2)
		file = vWrapV2(payload, pad, 0, nil)
		base = 51 + pad
	}
	rec := &vRecorder{}
	opts := []Option{ZeroLengthSectionAsEOF(vBool("zeroLengthAsEOF")), StoreIdentityCIDs(vBool("storeIdentity")), MaxAllowedSectionSize(64)}
	vAllocCheck(true, 256, uint64(len(file)))
	err := LoadIndex(rec, vReaderKind(vChoose("readerKind", 3), file), opts...)
	vAllocCheck(false, 0, 0)
	_ = base
	vAssert("records-bounded-by-input", len(rec.recs) <= n/2)
	last := uint64(0)
	for i, r := range rec.recs {
		vAssert("record-offset-inside-payload", r.Offset >= uint64(len(hdr)) && r.Offset < uint64(len(payload)))
		vAssert("record-offsets-strictly-increase", i == 0 || r.Offset > last)
		last = r.Offset
	}
	vCover("indexed-something", err == nil && len(rec.recs) > 0)
	vCover("rejected", err != nil)
	vCover("single-minimal-section", err == nil && len(rec.recs) == 1 && n < 6)
}
