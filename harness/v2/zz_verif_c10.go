package car

import (
	"bytes"

	"github.com/ipfs/go-cid"
	"github.com/ipld/go-car/v2/index"
)

type vSinkW struct {
	buf []byte
}

func (w *vSinkW) Write(p []byte) (int, error) {
	w.buf = append(w.buf, p...)
	return len(p), nil
}

// vTwoSections: two sections (thorough tier: three, with longer data).
func vTwoSections() []vSection {
	if vTier() == 1 {
		return []vSection{
			{c: vCidTW("c1"), data: vBytes("d1", vChoose("n1", 5))},
			{c: vCidTW("c2"), data: vBytes("d2", vChoose("n2", 3))},
			{c: vCidTW("c3"), data: vBytes("d3", vChoose("n3", 2))},
		}
	}
	return []vSection{
		{c: vCidT("c1"), data: vBytes("d1", vChoose("n1", 3))},
		{c: vCidT("c2"), data: vBytes("d2", vChoose("n2", 2))},
	}
}

// VerifH_C10_WrapV1: WrapV1 emits pragma, the header {51, |src|, 51+|src|}, the unmodified source
// bytes and an index that resolves every indexed section to its true offset.
func VerifH_C10_WrapV1() {
	root := vCidID("root")
	secs := vTwoSections()
	src := vPayload(vHeaderV1(root), secs)
	var wopts []Option
	if vChoose("nullPadded", 2) == 1 {
		// a null-padded CARv1 wrapped with ZeroLengthSectionAsEOF: the whole source is the payload
		src = append(src, make([]byte, 1+vChoose("nullPad", 3))...)
		wopts = append(wopts, ZeroLengthSectionAsEOF(true))
		vCover("wrapped-null-padded", true)
	}
	dst := &vSinkW{}
	err := WrapV1(&vSeekStream{vStream{data: src}}, dst, wopts...)
	vAssert("wrap-ok", err == nil)
	n := len(src)
	vAssert("length", len(dst.buf) > 51+n)
	vAssert("pragma", vBytesEq(dst.buf[:11], Pragma))
	var h Header
	_, herr := h.ReadFrom(bytes.NewReader(dst.buf[11:51]))
	vAssert("header-readable", herr == nil)
	vAssert("header-fields", h.DataOffset == 51 && h.DataSize == uint64(n) && h.IndexOffset == uint64(51+n))
	vAssert("payload-verbatim", vBytesEq(dst.buf[51:51+n], src))
	idx, ierr := index.ReadFrom(bytes.NewReader(dst.buf[51+n:]))
	vAssert("index-readable", ierr == nil)
	for _, s := range secs {
		if s.c.Prefix().MhType == 0 {
			continue // identity CIDs are not indexed by default
		}
		found := false
		gerr := idx.GetAll(s.c, func(o uint64) bool {
			if o == s.off {
				found = true
			}
			return true
		})
		vAssert("index-resolves-section", gerr == nil && found)
	}
	vCover("wrapped", true)
}

// VerifH_C10_ExtractV1File: extracting the payload of a CARv2 (any padding, with or without
// trailing index bytes) to a new file, over a longer existing file, or in place yields exactly the
// payload bytes.
func VerifH_C10_ExtractV1File() {
	root := vCidID("root")
	secs := vTwoSections()
	payload := vPayload(vHeaderV1(root), secs)
	pad := 3 * vChoose("pad", 2)
	tail := vBytes("tail", 3*vChoose("tailLen", 2))
	idxOff := uint64(0)
	if len(tail) > 0 {
		idxOff = uint64(51 + pad + len(payload))
	}
	file := vWrapV2(payload, pad, idxOff, tail)
	src := vFSPath("src.car")
	vFSWriteFile(src, file)
	dst := vFSPath("dst.car")
	switch vChoose("destState", 3) {
	case 0: // absent
	case 1: // pre-existing longer file: just longer than the payload, or longer than the whole source
		oldLen := len(payload) + 1
		if vChoose("oldMuchLonger", 2) == 1 {
			oldLen = len(file) + 4
		}
		vFSWriteFile(dst, vBytes("old", oldLen))
		vCover("over-longer-file", true)
	case 2: // in place
		dst = src
		vCover("in-place", true)
	}
	err := ExtractV1File(src, dst)
	vAssert("extract-ok", err == nil)
	got, ok := vFSReadFile(dst)
	vAssert("dest-readable", ok)
	vAssert("dest-is-exactly-payload", vBytesEq(got, payload))
	if dst != src {
		orig, ok2 := vFSReadFile(src)
		vAssert("source-untouched", ok2 && vBytesEq(orig, file))
	}
}

// VerifH_C10_WrapThenExtract: extract(wrap(x)) == x through the file-based API.
func VerifH_C10_WrapThenExtract() {
	root := vCidID("root")
	secs := vTwoSections()
	x := vPayload(vHeaderV1(root), secs)
	p1, p2, p3 := vFSPath("x.car"), vFSPath("wrapped.car"), vFSPath("back.car")
	vFSWriteFile(p1, x)
	vAssert("wrap-ok", WrapV1File(p1, p2) == nil)
	vAssert("extract-ok", ExtractV1File(p2, p3) == nil)
	got, ok := vFSReadFile(p3)
	vAssert("roundtrip", ok && vBytesEq(got, x))
	vCover("roundtrip-done", true)
}

// VerifH_C10_ReplaceRoots: replacing roots rewrites only the header frame, and only when the new
// header has the same encoded length; otherwise it fails and the file is untouched.
func VerifH_C10_ReplaceRoots() {
	root := vCidID("root")
	secs := vTwoSections()
	// the stored header is the canonical encoding, or one of two encodings that readers accept and
	// that are one byte longer (version as a two-byte integer; roots as an indefinite-length array)
	hdrKind := vChoose("headerEncoding", 3)
	hdr := vHeaderV1Variant(root, hdrKind)
	if hdrKind == 0 {
		vAssert("hand-encoding-is-the-canonical-one", vBytesEq(hdr, vHeaderV1(root)))
	}
	payload := vPayload(hdr, secs)
	hdrLen := len(hdr)
	base := 0
	file := payload
	if vChoose("v2", 2) == 1 {
		pad := 3 * vChoose("pad", 2)
		base = 51 + pad
		file = vWrapV2(payload, pad, 0, vBytes("tail", 2))
	}
	path := vFSPath("f.car")
	vFSWriteFile(path, file)
	var newRoots []cid.Cid
	sameSize := false
	switch vChoose("newRoots", 3) {
	case 0:
		newRoots = []cid.Cid{vCidID("newRoot")}
		sameSize = hdrKind == 0 // the new (canonical) header is one byte shorter than a non-canonical stored one
	case 1:
		newRoots = []cid.Cid{vCidID("newRoot"), vCidID("newRoot2")}
	case 2:
		newRoots = []cid.Cid{vCidT("longerRoot")}
	}
	// the replacement is the canonical encoding of the new roots; it goes in iff it is exactly as
	// long as the stored header frame (whatever the encoding of that one)
	newHdr := vHeaderV1(newRoots...)
	vAssert("size-classes-as-intended", !sameSize || len(newHdr) == hdrLen)
	sameSize = len(newHdr) == hdrLen
	err := ReplaceRootsInFile(path, newRoots)
	got, ok := vFSReadFile(path)
	vAssert("file-readable", ok && len(got) == len(file))
	if sameSize {
		vAssert("replaced-ok", err == nil)
		vAssert("new-header-frame", len(newHdr) == hdrLen && vBytesEq(got[base:base+hdrLen], newHdr))
		vAssert("before-header-untouched", vBytesEq(got[:base], file[:base]))
		vAssert("after-header-untouched", vBytesEq(got[base+hdrLen:], file[base+hdrLen:]))
		vCover("replaced", true)
	} else {
		vAssert("refused", err != nil)
		vAssert("file-untouched", vBytesEq(got, file))
		vCover("refused-size-mismatch", true)
		vCover("refused-non-canonical-stored-header", hdrKind != 0)
	}
}

// vHeaderV1Variant hand-encodes the CARv1 header frame {roots: [root], version: 1}.
func vHeaderV1Variant(root cid.Cid, kind int) []byte {
	cb := root.Bytes()
	body := []byte{0xa2, 0x65, 'r', 'o', 'o', 't', 's'}
	if kind == 2 {
		body = append(body, 0x9f) // indefinite-length array
	} else {
		body = append(body, 0x81)
	}
	body = append(body, 0xd8, 0x2a)
	if 1+len(cb) < 24 {
		body = append(body, 0x40+byte(1+len(cb)), 0x00)
	} else {
		body = append(body, 0x58, byte(1+len(cb)), 0x00)
	}
	body = append(body, cb...)
	if kind == 2 {
		body = append(body, 0xff)
	}
	body = append(body, 0x67, 'v', 'e', 'r', 's', 'i', 'o', 'n')
	if kind == 1 {
		body = append(body, 0x18, 0x01) // 1 as a two-byte integer
	} else {
		body = append(body, 0x01)
	}
	return append([]byte{byte(len(body))}, body...)
}
