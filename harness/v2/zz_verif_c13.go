package car

import (
	"io"

	"github.com/multiformats/go-multicodec"
)

// vScan: hash-verifying scan with the block reader, accumulating the statistics Inspect reports.
type vScan struct {
	ok                     bool
	count                  uint64
	minCid, maxCid, sumCid uint64
	minBlk, maxBlk, sumBlk uint64
	codecs                 map[multicodec.Code]uint64
	hashes                 map[multicodec.Code]uint64
	rootSeen               []bool
}

func vScanAll(r io.Reader, maxBlocks int, opts ...Option) (*vScan, *BlockReader) {
	s := &vScan{codecs: map[multicodec.Code]uint64{}, hashes: map[multicodec.Code]uint64{}}
	br, err := NewBlockReader(r, opts...)
	if err != nil {
		return s, nil
	}
	s.rootSeen = make([]bool, len(br.Roots))
	for i := 0; i <= maxBlocks; i++ {
		blk, err := br.Next()
		if err == io.EOF {
			s.ok = true
			return s, br
		}
		if err != nil {
			return s, br
		}
		c := blk.Cid()
		cl := uint64(c.ByteLen())
		bl := uint64(len(blk.RawData()))
		if s.count == 0 || cl < s.minCid {
			s.minCid = cl
		}
		if cl > s.maxCid {
			s.maxCid = cl
		}
		if s.count == 0 || bl < s.minBlk {
			s.minBlk = bl
		}
		if bl > s.maxBlk {
			s.maxBlk = bl
		}
		s.sumCid += cl
		s.sumBlk += bl
		s.count++
		p := c.Prefix()
		s.codecs[multicodec.Code(p.Codec)]++
		s.hashes[multicodec.Code(p.MhType)]++
		for i, rt := range br.Roots {
			if rt.Equals(c) {
				s.rootSeen[i] = true
			}
		}
	}
	vStop() // more blocks than the bound allows
	return s, br
}

// VerifH_C13_InspectVsScanV1: over a valid CARv1 header (one root) followed by N arbitrary bytes cut
// anywhere, Inspect(true) succeeds iff the verifying block-reader scan ends in a clean EOF, and
// then reports exactly the scan's statistics.
func VerifH_C13_InspectVsScanV1() {
	N := 10
	if vTier() == 1 {
		N = 14
	}
	// two roots, possibly equal (duplicate roots are legal)
	root, root2 := vCidID("root"), vCidID("root2")
	hdr := vHeaderV1(root, root2)
	in := vBytes("in", N)
	n := vInt("n")
	vAssume(n >= 0 && n <= N)
	zl := vBool("zeroLen")
	file := vCat(hdr, in[:n])
	// the limit is one below the input size, so that a section exactly at the limit (and one just
	// above it) fits into the input
	opts := []Option{ZeroLengthSectionAsEOF(zl), MaxAllowedSectionSize(uint64(N - 1))}

	scan, _ := vScanAll(&vStream{data: file}, N, opts...)
	rd, err := NewReader(&vReaderAt{data: file}, opts...)
	vAssert("reader-opens", err == nil)
	st, ierr := rd.Inspect(true)
	vAssert("inspect-ok-iff-scan-ok", (ierr == nil) == scan.ok)
	if ierr == nil && scan.ok {
		vAssert("version", st.Version == 1)
		vAssert("roots", len(st.Roots) == 2 && st.Roots[0].Equals(root) && st.Roots[1].Equals(root2))
		allSeen := len(scan.rootSeen) == 2 && scan.rootSeen[0] && scan.rootSeen[1]
		vAssert("block-count", st.BlockCount == scan.count)
		vAssert("roots-present", st.RootsPresent == allSeen)
		vAssert("cid-lengths", st.MinCidLength == scan.minCid && st.MaxCidLength == scan.maxCid)
		vAssert("block-lengths", st.MinBlockLength == scan.minBlk && st.MaxBlockLength == scan.maxBlk)
		if scan.count > 0 {
			vAssert("averages", st.AvgCidLength == scan.sumCid/scan.count && st.AvgBlockLength == scan.sumBlk/scan.count)
		}
		vAssert("codec-count-size", len(st.CodecCounts) == len(scan.codecs) && len(st.MhTypeCounts) == len(scan.hashes))
		for k, v := range scan.codecs {
			vAssert("codec-counts", st.CodecCounts[k] == v)
		}
		for k, v := range scan.hashes {
			vAssert("hash-counts", st.MhTypeCounts[k] == v)
		}
		vCover("agree-nonempty", scan.count > 0)
		vCover("agree-two-blocks", scan.count > 1)
		vCover("root-present", allSeen)
		vCover("duplicate-roots-present", allSeen && root.Equals(root2))
	}
	vCover("both-reject", ierr != nil && !scan.ok)
}

// VerifH_C13_InspectVsScanV2: the same differential check on a CARv2 container (data padding, an
// index of either codec or none, or an unreadable index codec): Inspect(true) succeeds iff the
// verifying scan of the payload succeeds and - when the header claims an index - its codec is
// readable; version, header and index codec are reported as found.
func VerifH_C13_InspectVsScanV2() {
	N := 5
	if vTier() == 1 {
		N = 7
	}
	root := vCidID("root")
	hdr := vHeaderV1(root)
	in := vBytes("in", N)
	n := vInt("n")
	vAssume(n >= 1 && n <= N)
	payload := vCat(hdr, in[:n])
	pad := 3 * vChoose("pad", 2)
	var idx []byte
	idxOff := uint64(0)
	idxKind := vChoose("indexKind", 5)
	switch idxKind {
	case 1:
		idx = []byte{0x80, 0x08, 0, 0, 0, 0} // car-index-sorted, no buckets
	case 2:
		idx = []byte{0x81, 0x08, 0, 0, 0, 0} // car-multihash-index-sorted, no buckets
	case 3:
		idx = []byte{0x80} // truncated codec varint
	case 4:
		idx = nil // the header claims an index but the file ends at the index offset
	}
	if idxKind != 0 {
		idxOff = uint64(51 + pad + len(payload))
	}
	file := vWrapV2(payload, pad, idxOff, idx)
	opts := []Option{MaxAllowedSectionSize(uint64(N - 1))}
	scan, _ := vScanAll(&vStream{data: file}, N, opts...)
	rd, err := NewReader(&vReaderAt{data: file}, opts...)
	vAssert("reader-opens", err == nil)
	st, ierr := rd.Inspect(true)
	wantOK := scan.ok && idxKind != 3 && idxKind != 4
	vAssert("inspect-ok-iff-scan-ok-and-codec-readable", (ierr == nil) == wantOK)
	if ierr == nil {
		vAssert("version", st.Version == 2)
		vAssert("header", st.Header.DataOffset == uint64(51+pad) && st.Header.DataSize == uint64(len(payload)) && st.Header.IndexOffset == idxOff)
		vAssert("block-count", st.BlockCount == scan.count)
		wantCodec := uint64(0)
		if idxKind == 1 {
			wantCodec = 0x0400
		} else if idxKind == 2 {
			wantCodec = 0x0401
		}
		vAssert("index-codec", uint64(st.IndexCodec) == wantCodec)
		vCover("v2-agree-with-block", scan.count > 0)
		vCover("v2-indexed", idxKind == 2)
	}
	vCover("v2-unreadable-codec-rejected", idxKind == 3 && ierr != nil && scan.ok)
	vCover("v2-missing-index-rejected", idxKind == 4 && ierr != nil && scan.ok)
}

// VerifH_C13_InspectStructuredCorruption: structure-aware corruption instead of arbitrary bytes: a
// payload of three sections with CIDs from the collision alphabet (so that sections may repeat a
// CID, as AllowDuplicatePuts archives do) whose data bytes are arbitrary - each section may or may
// not hash to its CID - cut at an arbitrary position inside the last section. Inspect(true)
// succeeds iff the hash-verifying scan does, with the same block count.
func VerifH_C13_InspectStructuredCorruption() {
	root := vCidID("root")
	hdr := vHeaderV1(root)
	secs := []vSection{
		{c: vCidT("c1"), data: vBytes("d1", vChoose("n1", 2))},
		{c: vCidT("c2"), data: vBytes("d2", vChoose("n2", 2))},
		{c: vCidT("c3"), data: vBytes("d3", 1)},
	}
	if vChoose("repeat", 2) == 1 {
		secs[2].c = secs[0].c // the third section repeats the first CID, with data of its own
	}
	payload := vPayload(hdr, secs)
	cut := vInt("cutFromEnd")
	vAssume(cut >= 0 && cut <= 2)
	file := payload[:len(payload)-cut]
	scan, _ := vScanAll(&vStream{data: file}, 4)
	rd, err := NewReader(&vReaderAt{data: file})
	vAssert("reader-opens", err == nil)
	st, ierr := rd.Inspect(true)
	vAssert("inspect-ok-iff-scan-ok", (ierr == nil) == scan.ok)
	if ierr == nil {
		vAssert("block-count", st.BlockCount == scan.count)
	}
	vCover("all-valid-with-repeat", ierr == nil && secs[2].c.Equals(secs[0].c) && vBytesEq(secs[0].data, secs[2].data))
	vCover("corrupt-repeat-rejected", ierr != nil && secs[2].c.Equals(secs[0].c) && cut == 0)
}
