package car

// VerifH_C13_RootsPresent: RootsPresent is "every root of the header has a block in the payload",
// per root and not per matching section: a header of two roots (collision alphabet, possibly equal)
// over three whole sections whose CIDs may repeat each other and the roots in any pattern - one
// root's block twice and the other root's never, both once, a duplicated root list with one block.
// Inspect(true) succeeds iff the hash-verifying scan does and then reports the scan's answer.
func VerifH_C13_RootsPresent() {
	r1, r2 := vCidT("r1"), vCidT("r2")
	hdr := vHeaderV1(r1, r2)
	secs := []vSection{
		{c: vCidT("c1"), data: vBytes("d1", 1)},
		{c: vCidT("c2"), data: vBytes("d2", 1)},
		{c: vCidT("c3"), data: vBytes("d3", 1)},
	}
	file := vPayload(hdr, secs)
	scan, _ := vScanAll(&vStream{data: file}, 4)
	rd, err := NewReader(&vReaderAt{data: file})
	vAssert("reader-opens", err == nil)
	st, ierr := rd.Inspect(true)
	vAssert("inspect-ok-iff-scan-ok", (ierr == nil) == scan.ok)
	if ierr == nil && scan.ok {
		allSeen := len(scan.rootSeen) == 2 && scan.rootSeen[0] && scan.rootSeen[1]
		vAssert("block-count", st.BlockCount == scan.count)
		vAssert("roots-present", st.RootsPresent == allSeen)
		vCover("both-roots-present", allSeen && !r1.Equals(r2))
		vCover("one-root-twice-other-missing", !allSeen && secs[0].c.Equals(r1) && secs[1].c.Equals(r1))
		vCover("duplicate-roots-one-block", allSeen && r1.Equals(r2))
	}
}
