package car

import (
	"io"
)

// VerifH_C14_NextSkipNext: over a valid archive of two sections (CARv1, or CARv2 with data padding
// and trailing bytes), any mix of Next and SkipNext over a seekable or a plain source visits the
// same CIDs; every skipped block's metadata is exact; a CARv2 source is never read past the payload.
func VerifH_C14_NextSkipNext() {
	root := vIdentityCid([]byte("r"))
	hdr := vHeaderV1(root)
	secs := []vSection{vValidSection("s1", 3), vValidSection("s2", 2)}
	if vTier() == 1 {
		secs = append(secs, vValidSection("s3", 1)) // three sections in the thorough tier
	}
	payload := vPayload(hdr, secs)
	isV2 := vChoose("v2", 2) == 1
	base := 0
	file := payload
	if isV2 {
		pad := 5 * vChoose("pad", 2)
		base = PragmaSize + HeaderSize + pad
		file = vWrapV2(payload, pad, 0, vBytes("tail", 3))
	}
	kind := vChoose("sourceKind", 3)
	var src io.Reader
	st := &vStream{}
	switch kind {
	case 1:
		s := &vSeekStream{vStream{data: file}}
		src, st = s, &s.vStream
	case 2:
		// a reader that returns (0, nil) every other call
		src = &vIdleStream{data: file}
		vCover("idle-source", true)
	default:
		s := &vStream{data: file}
		src, st = s, s
	}
	br, err := NewBlockReader(src)
	vAssert("open", err == nil)
	for i := range secs {
		if vChoose("skip", 2) == 1 {
			md, err := br.SkipNext()
			vAssert("skip-ok", err == nil)
			vAssert("skip-cid", md.Cid.Equals(secs[i].c))
			vAssert("skip-offset", md.Offset == secs[i].off)
			vAssert("skip-source-offset", md.SourceOffset == secs[i].off+uint64(base))
			vAssert("skip-size", md.Size == uint64(len(secs[i].data)))
			vCover("skipped", true)
		} else {
			blk, err := br.Next()
			vAssert("next-ok", err == nil)
			vAssert("next-cid", blk.Cid().Equals(secs[i].c))
			vAssert("next-data", vBytesEq(blk.RawData(), secs[i].data))
			vCover("read", true)
		}
	}
	_, err = br.Next()
	vAssert("then-eof", err == io.EOF)
	if isV2 && kind != 2 {
		vAssert("never-past-payload", st.maxPos <= base+len(payload))
		vCover("v2-done", true)
	}
}

// VerifH_C14_VarintBoundary: the same oracle where the first section's size straddles the 1-byte /
// 2-byte length-prefix boundary (CID 6 bytes + data 121 or 122 bytes = 127 / 128), read with Next
// and followed by SkipNext, whose metadata exposes the reader's running offset.
func VerifH_C14_VarintBoundary() {
	root := vIdentityCid([]byte("r"))
	hdr := vHeaderV1(root)
	L := 121 + vChoose("dataLen", 2)
	d1 := make([]byte, L)
	d1[0] = vU8("d1first")
	c1 := vCidT("c1")
	vAssume(c1.Prefix().MhType != 0)
	vAssume(vValidBlock(c1, d1))
	secs := []vSection{{c: c1, data: d1}, vValidSection("s2", 1)}
	payload := vPayload(hdr, secs)
	base := 0
	file := payload
	if vChoose("v2", 2) == 1 {
		base = PragmaSize + HeaderSize
		file = vWrapV2(payload, 0, 0, nil)
	}
	var src io.Reader
	if vChoose("seekable", 2) == 1 {
		src = &vSeekStream{vStream{data: file}}
	} else {
		src = &vStream{data: file}
	}
	br, err := NewBlockReader(src)
	vAssert("open", err == nil)
	first := vChoose("firstSkip", 2) == 1
	if first {
		md, err := br.SkipNext()
		vAssert("skip1-ok", err == nil && md.Offset == secs[0].off && md.Size == uint64(L))
	} else {
		blk, err := br.Next()
		vAssert("next1-ok", err == nil && blk.Cid().Equals(c1))
	}
	md, err := br.SkipNext()
	vAssert("skip2-ok", err == nil)
	vAssert("skip2-offset", md.Offset == secs[1].off)
	vAssert("skip2-source-offset", md.SourceOffset == secs[1].off+uint64(base))
	_, err = br.Next()
	vAssert("then-eof", err == io.EOF)
	vCover("two-byte-prefix-after-next", L == 122 && !first)
	vCover("one-byte-prefix-after-next", L == 121 && !first)
}

// VerifH_C14_HeaderSizeBoundary: the reader's starting offset comes from the size of the CARv1
// header frame; here the header body is 127, 128 or 129 bytes long (one identity root with a
// 101..103-byte digest), i.e. its own length prefix is one or two bytes. Every Next/SkipNext mix
// over two sections reports exact metadata on a plain and on a seekable source, CARv1 and CARv2.
func VerifH_C14_HeaderSizeBoundary() {
	root := vCidIDN("root", 101+vChoose("rootDigestLen", 3))
	hdr := vHeaderV1(root)
	secs := []vSection{vValidSection("s1", 1), vValidSection("s2", 1)}
	payload := vPayload(hdr, secs)
	base := 0
	file := payload
	if vChoose("v2", 2) == 1 {
		base = PragmaSize + HeaderSize
		file = vWrapV2(payload, 0, 0, nil)
	}
	var src io.Reader
	if vChoose("seekable", 2) == 1 {
		src = &vSeekStream{vStream{data: file}}
	} else {
		src = &vStream{data: file}
	}
	br, err := NewBlockReader(src)
	vAssert("open", err == nil)
	for i := range secs {
		if vChoose("skip", 2) == 1 {
			md, err := br.SkipNext()
			vAssert("skip-ok", err == nil)
			vAssert("skip-cid", md.Cid.Equals(secs[i].c))
			vAssert("skip-offset", md.Offset == secs[i].off)
			vAssert("skip-source-offset", md.SourceOffset == secs[i].off+uint64(base))
			vAssert("skip-size", md.Size == uint64(len(secs[i].data)))
		} else {
			blk, err := br.Next()
			vAssert("next-ok", err == nil && blk.Cid().Equals(secs[i].c) && vBytesEq(blk.RawData(), secs[i].data))
		}
	}
	_, err = br.Next()
	vAssert("then-eof", err == io.EOF)
	vCover("header-body-128", len(hdr) == 130)
	vCover("header-body-127", len(hdr) == 128)
}
