package car

import (
	"bytes"

	"github.com/ipld/go-car/v2/index"
	"github.com/multiformats/go-multicodec"
)

// VerifH_C15_WriteV2Header: the traversal writer's CARv2 preamble for every announced size and
// every data/index padding (sum below 2^61): exactly DataOffset bytes are emitted (pragma, the
// 40-byte header with the C05 field arithmetic - IndexOffset 0 when no index is requested - and
// zero padding), and the byte count returned equals the bytes written.
func VerifH_C15_WriteV2Header() {
	size := vU64("size")
	dp := uint64(vChoose("dataPad", 3) * 5)
	ip := vU64("indexPad")
	vAssume(size < 1<<61 && ip < 1<<61)
	noIndex := vBool("withoutIndex")
	opts := Options{DataPadding: dp, IndexPadding: ip, IndexCodec: multicodec.CarMultihashIndexSorted}
	if noIndex {
		opts.IndexCodec = index.CarIndexNone
	}
	tc := traversalCar{size: size, opts: opts}
	var out bytes.Buffer
	n, err := tc.WriteV2Header(&out)
	vAssert("no-error", err == nil)
	vAssert("count-is-bytes-written", n == int64(out.Len()))
	vAssert("emits-exactly-data-offset-bytes", uint64(out.Len()) == 51+dp)
	b := out.Bytes()
	vAssert("pragma", vBytesEq(b[:11], Pragma))
	var h Header
	_, rerr := h.ReadFrom(bytes.NewReader(b[11:51]))
	if size > 0 {
		vAssert("header-readable", rerr == nil)
		vAssert("data-offset", h.DataOffset == 51+dp)
		vAssert("data-size", h.DataSize == size)
		if noIndex {
			vAssert("no-index-offset", h.IndexOffset == 0)
		} else {
			vAssert("index-offset", h.IndexOffset == 51+dp+size+ip)
		}
	}
	for i := 51; i < len(b); i++ {
		vAssert("padding-is-zero", b[i] == 0)
	}
	vCover("padded", dp > 0)
	vCover("without-index", noIndex)
}
