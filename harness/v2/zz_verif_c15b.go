package car

import (
	"bytes"
	"context"
	"errors"
	"io"

	"github.com/ipfs/go-cid"
	"github.com/ipld/go-car/v2/index"
	"github.com/ipld/go-ipld-prime"
	_ "github.com/ipld/go-ipld-prime/codec/raw" // registers the raw codec, as users of the writer do
	cidlink "github.com/ipld/go-ipld-prime/linking/cid"
	basicnode "github.com/ipld/go-ipld-prime/node/basic"
	selectorbuilder "github.com/ipld/go-ipld-prime/traversal/selector/builder"
)

// VerifH_C15_SelectiveWriteTo: the two-pass selective writer end to end (real go-ipld-prime
// traversal over a single raw root block with arbitrary bytes) for every padding / index / version
// configuration: the byte count returned by WriteTo equals the bytes written, the output is a
// well-formed CARv2 (or CARv1 payload) with the documented header fields, holds the root block
// exactly once, and Inspect(true) accepts it.
func VerifH_C15_SelectiveWriteTo() {
	root := vCidT("root")
	vAssume(root.Prefix().Codec == cid.Raw)
	var data []byte
	if root.Prefix().MhType == 0 {
		data = vIdentityPayload(root)
	} else {
		data = vBytes("data", vChoose("len", 3))
		vAssume(vValidBlock(root, data))
	}
	ls := cidlink.DefaultLinkSystem()
	ls.TrustedStorage = true
	ls.StorageReadOpener = func(_ ipld.LinkContext, l ipld.Link) (io.Reader, error) {
		if l.(cidlink.Link).Cid.Equals(root) {
			return bytes.NewReader(data), nil
		}
		return nil, errors.New("not found")
	}
	ssb := selectorbuilder.NewSelectorSpecBuilder(basicnode.Prototype.Any)
	sel := ssb.Matcher().Node()
	dp := uint64(5 * vChoose("dataPad", 2))
	ip := uint64(3 * vChoose("indexPad", 2))
	noIndex := vBool("withoutIndex")
	opts := []Option{UseDataPadding(dp), UseIndexPadding(ip)}
	if noIndex {
		opts = append(opts, WithoutIndex())
	}
	wr, err := NewSelectiveWriter(context.Background(), &ls, root, sel, opts...)
	vAssert("first-pass-ok", err == nil)
	var out bytes.Buffer
	n, err := wr.WriteTo(&out)
	vAssert("write-ok", err == nil)
	vAssert("returned-count-is-bytes-written", n == int64(out.Len()))
	file := out.Bytes()
	payload := vPayload(vHeaderV1(root), []vSection{{c: root, data: data}})
	vAssert("pragma", len(file) >= 51 && vBytesEq(file[:11], Pragma))
	var h Header
	_, herr := h.ReadFrom(bytes.NewReader(file[11:51]))
	vAssert("header", herr == nil && h.DataOffset == 51+dp && h.DataSize == uint64(len(payload)))
	vAssert("payload-is-header-and-root-once", uint64(len(file)) >= h.DataOffset+h.DataSize && vBytesEq(file[h.DataOffset:h.DataOffset+h.DataSize], payload))
	end := 51 + dp + uint64(len(payload))
	if noIndex {
		vAssert("no-index", h.IndexOffset == 0 && uint64(len(file)) == end)
	} else {
		vAssert("index-offset", h.IndexOffset == end+ip && uint64(len(file)) > h.IndexOffset)
		idx, ierr := index.ReadFrom(bytes.NewReader(file[h.IndexOffset:]))
		vAssert("index-readable", ierr == nil)
		if ierr == nil && root.Prefix().MhType != 0 {
			found := false
			gerr := idx.GetAll(root, func(o uint64) bool {
				found = found || o == uint64(len(vHeaderV1(root)))
				return true
			})
			vAssert("index-resolves-root", gerr == nil && found)
		}
	}
	rd, rerr := NewReader(bytes.NewReader(file))
	vAssert("reader-opens", rerr == nil)
	if rerr == nil {
		_, ierr := rd.Inspect(true)
		vAssert("inspect-accepts", ierr == nil)
	}
	vCover("index-padded", !noIndex && ip > 0)
	vCover("without-index-padded", noIndex && dp > 0)
}
