package car

import (
	"bytes"
	"context"
	"errors"
	"io"

	"github.com/ipfs/go-cid"
	"github.com/ipld/go-ipld-prime"
	"github.com/ipld/go-ipld-prime/codec/dagcbor"
	"github.com/ipld/go-ipld-prime/datamodel"
	"github.com/ipld/go-ipld-prime/fluent/qp"
	cidlink "github.com/ipld/go-ipld-prime/linking/cid"
	basicnode "github.com/ipld/go-ipld-prime/node/basic"
	"github.com/ipld/go-ipld-prime/traversal/selector"
	selectorbuilder "github.com/ipld/go-ipld-prime/traversal/selector/builder"
	"github.com/multiformats/go-multihash"
)

// VerifH_C15_SelectiveDag: the selective writer (NewSelectiveWriter.WriteTo and TraverseV1) over a
// DAG with repeated links and a shared leaf, traversed by the real go-ipld-prime engine with the
// explore-all selector: root (dag-cbor list of links) -> leaves a, b (raw, arbitrary bytes, possibly
// equal), link list drawn from {[a], [a,b], [a,a], [a,b,a]} x {link-visit-once, AllowDuplicatePuts}
// x {index, no index}: the payload is the header followed by root and the distinct leaves in
// first-visit order, each exactly once; announced size, returned count and written bytes agree.
func VerifH_C15_SelectiveDag() {
	vHashCollisionFree(true)
	da, db := vBytes("a", 1), vBytes("b", 1)
	mk := func(codec uint64, data []byte) cid.Cid {
		mh, err := multihash.Sum(data, multihash.SHA2_256, -1)
		if err != nil {
			panic("mk")
		}
		return cid.NewCidV1(codec, mh)
	}
	ca, cb := mk(cid.Raw, da), mk(cid.Raw, db)
	shapes := [][]cid.Cid{{ca}, {ca, cb}, {ca, ca}, {ca, cb, ca}}
	links := shapes[vChoose("shape", len(shapes))]
	rootNode, err := qp.BuildList(basicnode.Prototype.Any, int64(len(links)), func(la datamodel.ListAssembler) {
		for _, l := range links {
			qp.ListEntry(la, qp.Link(cidlink.Link{Cid: l}))
		}
	})
	if err != nil {
		panic("root node")
	}
	var rootBuf bytes.Buffer
	if err := dagcbor.Encode(rootNode, &rootBuf); err != nil {
		panic("root encode")
	}
	rootData := rootBuf.Bytes()
	root := mk(cid.DagCBOR, rootData)
	blocks := map[string][]byte{root.KeyString(): rootData, ca.KeyString(): da, cb.KeyString(): db}
	ls := cidlink.DefaultLinkSystem()
	ls.TrustedStorage = true
	ls.StorageReadOpener = func(_ ipld.LinkContext, l ipld.Link) (io.Reader, error) {
		if d, ok := blocks[l.(cidlink.Link).Cid.KeyString()]; ok {
			return bytes.NewReader(d), nil
		}
		return nil, errors.New("not found")
	}
	ssb := selectorbuilder.NewSelectorSpecBuilder(basicnode.Prototype.Any)
	sel := ssb.ExploreRecursive(selector.RecursionLimitNone(), ssb.ExploreAll(ssb.ExploreRecursiveEdge())).Node()

	dup := vBool("allowDuplicatePuts")
	noIndex := vBool("withoutIndex")
	opts := []Option{AllowDuplicatePuts(dup)}
	if noIndex {
		opts = append(opts, WithoutIndex())
	}
	// reference: header, root, then the distinct leaves in first-visit order
	want := []vSection{{c: root, data: rootData}}
	for _, l := range links {
		seen := false
		for _, w := range want {
			if w.c.Equals(l) {
				seen = true
			}
		}
		if !seen {
			want = append(want, vSection{c: l, data: blocks[l.KeyString()]})
		}
	}
	payload := vPayload(vHeaderV1(root), want)

	var out bytes.Buffer
	api := vChoose("api", 3)
	if api == 2 {
		// TraverseToFile writes a placeholder header, the payload, and then the final header
		path := vFSPath("sel.car")
		err := TraverseToFile(context.Background(), &ls, root, sel, path, opts...)
		vAssert("traverse-to-file-ok", err == nil)
		file, ok := vFSReadFile(path)
		vAssert("file-written", ok && len(file) >= 51)
		var h Header
		_, herr := h.ReadFrom(bytes.NewReader(file[11:51]))
		vAssert("file-announced-size-is-payload-size", herr == nil && h.DataOffset == 51 && h.DataSize == uint64(len(payload)))
		vAssert("file-payload-is-visited-blocks-once-in-order", uint64(len(file)) >= 51+h.DataSize && vBytesEq(file[51:51+h.DataSize], payload))
		if noIndex {
			vAssert("file-no-index", h.IndexOffset == 0 && len(file) == 51+len(payload))
		}
		rd, rerr := NewReader(bytes.NewReader(file))
		vAssert("file-reader-opens", rerr == nil)
		if rerr == nil {
			_, ierr := rd.Inspect(true)
			vAssert("file-inspect-accepts", ierr == nil)
		}
		vCover("to-file-without-index", noIndex)
		return
	}
	if api == 0 {
		wr, err := NewSelectiveWriter(context.Background(), &ls, root, sel, opts...)
		vAssert("first-pass-ok", err == nil)
		n, err := wr.WriteTo(&out)
		vAssert("write-ok", err == nil)
		vAssert("returned-count-is-bytes-written", n == int64(out.Len()))
		file := out.Bytes()
		var h Header
		_, herr := h.ReadFrom(bytes.NewReader(file[11:51]))
		vAssert("announced-size-is-payload-size", herr == nil && h.DataSize == uint64(len(payload)))
		vAssert("payload-is-visited-blocks-once-in-order", uint64(len(file)) >= 51+h.DataSize && vBytesEq(file[51:51+h.DataSize], payload))
		vCover("v2-shared-leaf-twice", len(links) == 3)
	} else {
		n, err := TraverseV1(context.Background(), &ls, root, sel, &out, opts...)
		vAssert("traverse-v1-ok", err == nil)
		vAssert("v1-returned-count-is-bytes-written", n == uint64(out.Len()))
		vAssert("v1-payload-is-visited-blocks-once-in-order", vBytesEq(out.Bytes(), payload))
		vCover("v1-repeated-link-with-duplicates-allowed", len(links) == 3 && dup)
	}
	vCover("equal-leaves", vBytesEq(da, db) && len(links) == 2 && links[1].Equals(cb))
}
