package car

// Shared harness vocabulary for package car (v2): streams, archive builders.

import (
	"bytes"
	"errors"
	"io"

	"github.com/ipfs/go-cid"
	"github.com/ipld/go-car/v2/internal/carv1"
)

// vStream: plain io.Reader over data (no ReadByte, no Seek, no ReadAt). maxPos records the
// highest position ever read so that over-reads are observable.
type vStream struct {
	data   []byte
	pos    int
	maxPos int
}

func (s *vStream) Read(p []byte) (int, error) {
	if len(p) == 0 {
		return 0, nil
	}
	if s.pos >= len(s.data) {
		return 0, io.EOF
	}
	n := copy(p, s.data[s.pos:])
	s.pos += n
	if s.pos > s.maxPos {
		s.maxPos = s.pos
	}
	return n, nil
}

// vSeekStream: io.ReadSeeker + io.ByteReader (like bytes.Reader).
type vSeekStream struct {
	vStream
}

func (s *vSeekStream) ReadByte() (byte, error) {
	if s.pos >= len(s.data) {
		return 0, io.EOF
	}
	b := s.data[s.pos]
	s.pos++
	if s.pos > s.maxPos {
		s.maxPos = s.pos
	}
	return b, nil
}

func (s *vSeekStream) Seek(offset int64, whence int) (int64, error) {
	var abs int64
	switch whence {
	case io.SeekStart:
		abs = offset
	case io.SeekCurrent:
		abs = int64(s.pos) + offset
	case io.SeekEnd:
		abs = int64(len(s.data)) + offset
	default:
		return 0, errors.New("vSeekStream: invalid whence")
	}
	if abs < 0 {
		return 0, errors.New("vSeekStream: negative position")
	}
	if abs > 1<<30 {
		return 0, errors.New("vSeekStream: position too large")
	}
	s.pos = int(abs)
	return abs, nil
}

// vReaderAt: io.ReaderAt only.
type vReaderAt struct {
	data   []byte
	maxPos int
}

func (r *vReaderAt) ReadAt(p []byte, off int64) (int, error) {
	if off < 0 {
		return 0, errors.New("vReaderAt: negative offset")
	}
	if off >= int64(len(r.data)) {
		return 0, io.EOF
	}
	n := copy(p, r.data[off:])
	if int(off)+n > r.maxPos {
		r.maxPos = int(off) + n
	}
	if n < len(p) {
		return n, io.EOF
	}
	return n, nil
}

// vIdentityCid returns the CIDv1 raw/identity CID of payload (bytes 01 55 00 len payload).
func vIdentityCid(payload []byte) cid.Cid {
	b := append([]byte{1, 0x55, 0, byte(len(payload))}, payload...)
	c, err := cid.Cast(b)
	if err != nil {
		panic("vIdentityCid: " + err.Error())
	}
	return c
}

// vHeaderV1 returns the framed CARv1 header for the given roots.
func vHeaderV1(roots ...cid.Cid) []byte {
	var buf bytes.Buffer
	if err := carv1.WriteHeader(&carv1.CarHeader{Roots: roots, Version: 1}, &buf); err != nil {
		panic("vHeaderV1: " + err.Error())
	}
	return buf.Bytes()
}

type vSection struct {
	c    cid.Cid
	data []byte
	off  uint64 // offset of the length prefix within the payload
}

func vCat(parts ...[]byte) []byte {
	var out []byte
	for _, p := range parts {
		out = append(out, p...)
	}
	return out
}

// vValidSection: a section whose CID comes from the collision alphabet and whose data (length
// 0..maxData, arbitrary content) hashes to it.
func vValidSection(tag string, maxData int) vSection {
	c := vCidT(tag)
	if c.Prefix().MhType == 0 {
		// identity: the data is the digest
		return vSection{c: c, data: vIdentityPayload(c)}
	}
	data := vBytes(tag+".data", vChoose(tag+".len", maxData+1))
	vAssume(vValidBlock(c, data))
	return vSection{c: c, data: data}
}

// vEOFStream: a conformant io.Reader that returns its final bytes together with io.EOF
// (like an http.Response.Body with a Content-Length, or iotest.DataErrReader).
type vEOFStream struct {
	data   []byte
	pos    int
	maxPos int
}

func (s *vEOFStream) Read(p []byte) (int, error) {
	if len(p) == 0 {
		return 0, nil
	}
	if s.pos >= len(s.data) {
		return 0, io.EOF
	}
	n := copy(p, s.data[s.pos:])
	s.pos += n
	if s.pos > s.maxPos {
		s.maxPos = s.pos
	}
	if s.pos >= len(s.data) {
		return n, io.EOF
	}
	return n, nil
}

// vIdleStream: a conformant io.Reader that now and then returns (0, nil) before delivering data
// (the io.Reader contract allows it; callers must treat it as "nothing happened").
type vIdleStream struct {
	data []byte
	pos  int
	tick int
}

func (s *vIdleStream) Read(p []byte) (int, error) {
	if len(p) == 0 {
		return 0, nil
	}
	s.tick++
	if s.tick%2 == 1 {
		return 0, nil
	}
	if s.pos >= len(s.data) {
		return 0, io.EOF
	}
	n := copy(p, s.data[s.pos:])
	s.pos += n
	return n, nil
}
