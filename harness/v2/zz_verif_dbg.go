package car

func VerifH_C99_Dbg() {
	root := vCidID("root")
	hdr := vHeaderV1(root)
	rd, err := NewReader(&vReaderAt{data: hdr})
	vAssert("reader-opens", err == nil)
	_ = rd
}
