#!/usr/bin/env python3
"""Regenerates /verif/MANIFEST.json from tools/manifest_src.json (per-property texts) so that the
manifest always validates and not_applicable stays complete."""
import json, os, sys
here = os.path.dirname(os.path.abspath(__file__))
root = os.path.dirname(here)
src = json.load(open(os.path.join(here, 'manifest_src.json')))
props = [json.loads(l)['id'] for l in open(os.path.join(root, 'properties.jsonl'))]
checks, na = [], []
for pid in props:
    e = src['properties'].get(pid)
    if e is None or e.get('not_applicable'):
        na.append({'property_id': pid, 'reason': (e or {}).get('not_applicable', 'no check built yet for this property (work in progress); see DESIGN.md')})
        continue
    checks.append({
        'property_id': pid,
        'quick_cmd': f'bin/check {pid} --tier quick',
        'thorough_cmd': f'bin/check {pid} --tier thorough',
        'evidence_file': f'/verif/evidence/{pid}.json',
        'replay_cmd_template': 'bin/check replay {path}',
        'engine': 'gosmt',
        'level_claimed': {'category': 'model_checking', 'text': e['text'], 'design_ref': e.get('design_ref', 'DESIGN.md §6 ' + pid)},
        'level_note': e['note'],
        'technique': e.get('technique', 'bounded symbolic execution of the real go/ssa code into SMT-LIB (z3), counterexamples replayed natively'),
    })
m = {
    'version': 1,
    'setup_cmd': 'cd /verif/engine && GOFLAGS=-mod=mod GOPROXY=off GOSUMDB=off GOTOOLCHAIN=local CGO_ENABLED=0 go build -o /verif/bin/gosmt .',
    'hooks': {
        'guard': 'verif',
        'enable': 'none needed: harnesses are injected into the packages under test with go/packages overlays (symbolic run) and `go test -overlay` (native replay); no hook code is committed to /repo',
        'baseline_off_cmd': 'for m in . v2 cmd; do (cd /repo/$m && GOFLAGS=-mod=mod GOPROXY=off GOSUMDB=off go test -vet=off -count=1 ./...) || exit 1; done',
        'source_commits': [],
        'add_only': True,
    },
    'engines': [{
        'name': 'gosmt', 'path': '/verif/engine',
        'serves_properties': [c['property_id'] for c in checks],
        'kind_free_text': 'forking symbolic executor for go/ssa (x/tools v0.29.0) written for this task; path conditions and obligations are discharged by z3 4.8.12 over SMT-LIB2 (QF_BV+UF); harnesses are ordinary in-package Go functions injected by overlay; satisfying assignments are replayed against the native build with the same harness source',
    }],
    'checks': checks,
    'not_applicable': na,
    'notes': src.get('notes', ''),
}
json.dump(m, open(os.path.join(root, 'MANIFEST.json'), 'w'), indent=1)
print('checks:', [c['property_id'] for c in checks]); print('not_applicable:', [x['property_id'] for x in na])
