#!/usr/bin/env python3
"""Writes seeded/README.md from the meta.json files of the confirmed seeded changes."""
import json, glob, os
root = os.path.dirname(os.path.dirname(os.path.abspath(__file__)))
rows = []
for m in sorted(glob.glob(os.path.join(root, 'seeded', '*', 'meta.json'))):
    d = json.load(open(m))
    name = os.path.basename(os.path.dirname(m))
    desc = d.get('needs_to_manifest', '').strip().splitlines()
    first = next((l.strip('# *-').strip() for l in desc if l.strip()), '')
    caught = [r.split(':')[0] for r in d.get('check_results', []) if r.endswith(':caught')]
    other = [r for r in d.get('check_results', []) if not r.endswith(':caught')]
    if d.get('outside_claim'):
        other.append('outside every property (see meta.json: outside_claim)')
    rows.append((name, d['property'], 'yes' if d.get('confirmed_by_me') else 'NO', ', '.join(caught) or '-', ', '.join(other) or '-', first[:110]))
with open(os.path.join(root, 'seeded', 'README.md'), 'w') as f:
    f.write('# Seeded changes\n\nEach directory holds one change produced by an independent sub-agent that saw only the text of one property: `patch.diff`, the demonstration (`demo_test.go.txt`, with `// place at:` and `// run:` lines), `description.md` and `meta.json` (property, what it needs to manifest, what was run to confirm it, and which checks report a VIOLATION on it). Confirmation and check runs are done by `tools/seedcheck.sh <PROP> <mN> [other props]`. Every `patch.diff` applies to the current `/repo` HEAD (`git -C /repo apply <file>`): seven patches whose context was changed by a later `fix:` commit were ported to the repaired code and confirmed again.\n\n')
    f.write('| change | property | confirmed | caught by | not caught by | summary |\n|---|---|---|---|---|---|\n')
    for r in rows:
        f.write('| ' + ' | '.join(r) + ' |\n')
print(len(rows), 'seeded changes')
