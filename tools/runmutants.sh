#!/bin/bash
# tools/runmutants.sh [commit...]: applies the reverse patch of each fix: commit (mutants/revert-<c>.diff)
# to a scratch worktree of /repo and runs the owning property's quick check against it (VERIF_REPO).
# Every line must say "caught".
export GOFLAGS=-mod=mod GOPROXY=off GOSUMDB=off GOTOOLCHAIN=local
cd /verif
list="$@"
[ -z "$list" ] && list=$(grep '^fixed:' known_findings.txt | awk '{print $3}')
rc=0
for c in $list; do
  prop=$(grep "^fixed: property=C[0-9]* $c" known_findings.txt | sed 's/^fixed: property=\(C[0-9]*\).*/\1/')
  R=/tmp/mutant-$c
  git -C /repo worktree remove --force "$R" 2>/dev/null
  git -C /repo worktree add -q --detach "$R" HEAD || exit 2
  if ! git -C "$R" apply "/verif/mutants/revert-$c.diff"; then echo "$c $prop patch-does-not-apply"; rc=1; git -C /repo worktree remove --force "$R"; continue; fi
  out=$(VERIF_REPO="$R" timeout 3000 bin/check $prop --no-evidence 2>&1 | grep -E '^(VIOLATION|OK|INCONCLUSIVE)')
  if echo "$out" | grep -q '^VIOLATION'; then echo "$c $prop caught: $(echo "$out" | grep -m1 '^VIOLATION' | cut -c1-160)"; else echo "$c $prop MISSED: $(echo "$out" | head -1 | cut -c1-160)"; rc=1; fi
  git -C /repo worktree remove --force "$R"
done
exit $rc
