#!/bin/bash
# tools/seedcheck.sh <PROP> <mN> [extra check props...]
# 1. confirms a seeded change in a scratch worktree: suites pass with it, demo fails with it and passes without
# 2. stores it under /verif/seeded/<PROP>-<mN>/
# 3. applies it to /repo, runs the property's quick check (and extra ones), undoes it
set -u
export GOFLAGS=-mod=mod GOPROXY=off GOSUMDB=off GOTOOLCHAIN=local
P="$1"; M="$2"; shift 2
PROP=$(echo "$P" | sed "s/r[0-9]$//")   # later-round seeds live in <prop>r<N> directories
SRC=/tmp/seed/out/$P
DST=/verif/seeded/$P-$M
W=/tmp/seedverify-$P-$M
mkdir -p "$DST"
cp "$SRC/$M.diff" "$DST/patch.diff"
cp "$SRC/${M}_demo_test.go" "$DST/demo_test.go.txt" 2>/dev/null
cp "$SRC/$M.md" "$DST/description.md" 2>/dev/null
place=$(grep -m1 '^// place at:' "$SRC/${M}_demo_test.go" | sed 's#// place at: *##')
runcmd=$(grep -m1 '^// run:' "$SRC/${M}_demo_test.go" | sed 's#// run: *##')
git -C /repo worktree remove --force "$W" 2>/dev/null
git -C /repo worktree add -q --detach "$W" HEAD || exit 2
moddir=$(dirname "$place"); while [ ! -f "$W/$moddir/go.mod" ] && [ "$moddir" != "." ]; do moddir=$(dirname "$moddir"); done
pkgrel=$(realpath --relative-to="$W/$moddir" "$W/$(dirname "$place")")
testname=$(grep -o 'func Test[A-Za-z0-9_]*' "$SRC/${M}_demo_test.go" | sed 's/func //' | paste -sd'|')
demo() { (cd "$W/$moddir" && go test -vet=off -count=1 -run "^($testname)\$" ./$pkgrel 2>&1 | tail -3); }
cp "$SRC/${M}_demo_test.go" "$W/$place"
echo "--- demo without mutation"; out0=$(demo); echo "$out0" | tail -2
git -C "$W" apply "$SRC/$M.diff" || { echo "PATCH DOES NOT APPLY"; exit 2; }
echo "--- demo with mutation"; out1=$(demo); echo "$out1" | tail -2
rm "$W/$place"
echo "--- suites with mutation"
s1=$( (cd "$W" && go test -vet=off -count=1 ./... 2>&1 | grep -v "no test files" | grep -v "^ok" | head -5) )
s2=$( (cd "$W/v2" && go test -vet=off -count=1 ./... 2>&1 | grep -v "no test files" | grep -v "^ok" | head -5) )
s3=""
if git -C "$W" diff --name-only | grep -q '^cmd/'; then s3=$( (cd "$W/cmd" && go test -vet=off -count=1 ./... 2>&1 | grep -v "no test files" | grep -v "^ok" | head -5) ); fi
echo "suite failures: [$s1$s2$s3]"
git -C /repo worktree remove --force "$W"
confirmed=no
if echo "$out0" | grep -q '^ok' && echo "$out1" | grep -q 'FAIL' && [ -z "$s1$s2$s3" ]; then confirmed=yes; fi
echo "confirmed=$confirmed"
# run checks against it
results=""
if [ "$confirmed" = yes ]; then
  if [ "${SEED_MODE:-repo}" = copy ]; then
    # development mode: run the checks against a scratch worktree (VERIF_REPO) so that /repo stays untouched
    R=/tmp/seedrepo-$P-$M
    git -C /repo worktree remove --force "$R" 2>/dev/null
    git -C /repo worktree add -q --detach "$R" HEAD
    git -C "$R" apply "$DST/patch.diff" || { echo "cannot apply"; exit 2; }
    export VERIF_REPO="$R"
  else
    git -C /repo apply "$DST/patch.diff" || { echo "cannot apply to /repo"; exit 2; }
  fi
  for C in "$PROP" "$@"; do
    out=$(cd "${VERIF_SNAP:-/verif}" && timeout 1500 bin/check $C --no-evidence 2>&1 | grep -E "^(VIOLATION|INCONCLUSIVE|OK|KNOWN)" | head -4)
    rc=$(echo "$out" | grep -c '^VIOLATION')
    echo "=== check $C:"; echo "$out" | cut -c1-300
    if [ "$rc" -gt 0 ]; then results="$results $C:caught"; elif echo "$out" | grep -q '^INCONCLUSIVE'; then results="$results $C:inconclusive"; else results="$results $C:missed"; fi
  done
  if [ "${SEED_MODE:-repo}" = copy ]; then
    unset VERIF_REPO
    git -C /repo worktree remove --force "$R"
  else
    git -C /repo checkout -- .
  fi
fi
python3 - "$DST" "$P" "$M" "$confirmed" "$results" "$place" "$runcmd" <<'PY'
import json,sys,os
dst,p,m,conf,res,place,run=sys.argv[1:8]
desc=open(os.path.join(dst,'description.md')).read() if os.path.exists(os.path.join(dst,'description.md')) else ''
meta={'property':p[:3],'mutation':m,'confirmed_by_me':conf=='yes','what_i_ran':'tools/seedcheck.sh: scratch worktree of /repo HEAD; existing suites of ., v2 (and cmd if touched) with the patch; demo test with and without the patch; then patch applied to /repo, bin/check run, patch undone','demo_place':place,'demo_run':run,'check_results':res.split(),'needs_to_manifest':desc}
json.dump(meta,open(os.path.join(dst,'meta.json'),'w'),indent=1)
print('meta:',meta['check_results'])
PY
